(* OutcomeRoundTrip.v — C10, the composed statement: for every well-formed outcome, decoding the bytes the encoder
   produced gives back the outcome (version 0: validity starts floored to whole seconds) — field by field, for
   any number of channels, streams and aggregates; and encode-after-decode reproduces the bytes. *)
From stdpp Require Import gmap.
From DS Require Import Base Decimal StreamValue Wire Sort Aggregators RepoConstants Outcome OutcomeCodec.
From DS Require Import BaseProofs WireProofs StreamValueProofs SortProofs OutcomeOrder OutcomeCodecProofs FieldLists.
From Coq Require Import Lia.
Open Scope Z_scope.

Ltac rw_spec lem := let H := fresh "Hspec" in pose proof lem as H; cbn [app] in H; cbn [app]; rewrite H by nospec_tac; clear H.

Definition u32_ok (v : Z) : Prop := 0 <= v < 2 ^ 32.
Definition u64_ok (v : Z) : Prop := 0 <= v < 2 ^ 64.
Lemma u32_id v : u32_ok v -> u32 v = v.
Proof. intros H. unfold u32. apply Z.mod_small. exact H. Qed.

Definition small (b : list Z) : Prop := Z.of_nat (length b) < 2 ^ 64.
Lemma small_le (a b : list Z) : (length a <= length b)%nat -> small b -> small a.
Proof. unfold small. lia. Qed.

Lemma sequence_res_map_ok {A B} (enc : A -> B) (dec : B -> res A) (l : list A) :
  (forall x, In x l -> dec (enc x) = Ok x) -> sequence_res (map dec (map enc l)) = Ok l.
Proof.
  induction l as [|x l IH]; intros H; [reflexivity|]. cbn [map sequence_res].
  rewrite (H x (or_introl eq_refl)). rewrite IH; [reflexivity|]. intros y Hy. apply H. right. exact Hy.
Qed.

(* ---------- streams and channel definitions ---------- *)
Definition stream_wf (s : Z * Z) : Prop := u32_ok (fst s) /\ u32_ok (snd s).
Definition def_wf (cd : chandef) : Prop := u32_ok (cd_fmt cd) /\ Forall stream_wf (cd_streams cd).

Lemma enc_stream_fs s : enc_stream s = enc_fs [FV 1 (fst s); FV 2 (snd s)].
Proof. unfold enc_stream, enc_fs. cbn [flat_map enc_f]. rewrite app_nil_r. reflexivity. Qed.

Lemma dec_stream_enc s : stream_wf s -> dec_stream (enc_stream s) = Ok s.
Proof.
  intros [H1 H2]. unfold dec_stream. rewrite enc_stream_fs.
  rewrite parse_enc_fs by (repeat constructor; unfold u32_ok in *; try apply field_ok_small; lia).
  rw_spec (last_varint_spec 1 (fst s) [] [FV 2 (snd s)]).
  rw_spec (last_varint_spec 2 (snd s) [FV 1 (fst s)] []).
  rewrite !u32_id by assumption. destruct s; reflexivity.
Qed.

Definition def_specs (cd : chandef) : list fspec :=
  [FV 1 (cd_fmt cd)] ++ map (fun s => FM 2 (enc_stream s)) (cd_streams cd) ++ [FB 3 (cd_opts cd)].
Lemma enc_def_fs cd : enc_def cd = enc_fs (def_specs cd).
Proof.
  unfold enc_def, def_specs. rewrite !enc_fs_app, enc_fs_map_FM. unfold enc_fs. cbn [flat_map enc_f].
  rewrite !app_nil_r. reflexivity.
Qed.

Lemma Forall_map_FM_ok {A} k (g : A -> list Z) l :
  field_ok k -> (forall x, In x l -> small (g x)) -> Forall fspec_ok (map (fun x => FM k (g x)) l).
Proof.
  intros Hk H. apply Forall_forall. intros s Hs. apply in_map_iff in Hs. destruct Hs as (x & <- & Hx).
  split; [exact Hk|apply H; exact Hx].
Qed.

Lemma dec_def_enc cd : def_wf cd -> small (enc_def cd) -> dec_def (enc_def cd) = Ok cd.
Proof.
  intros [Hf Hs] Hsm. unfold dec_def. rewrite enc_def_fs in *.
  assert (Hstreams : forall s, In s (cd_streams cd) -> small (enc_stream s)).
  { intros s Hin. eapply small_le; [|exact Hsm]. unfold def_specs. rewrite !enc_fs_app, enc_fs_map_FM, !app_length.
    pose proof (length_flat_map_in (fun s => f_msg 2 (enc_stream s)) s _ Hin). pose proof (length_f_msg 2 (enc_stream s)). lia. }
  assert (Hopts : small (cd_opts cd)).
  { eapply small_le; [|exact Hsm]. unfold def_specs. rewrite !enc_fs_app, !app_length. unfold enc_fs at 3. cbn [flat_map enc_f].
    rewrite app_nil_r. pose proof (length_f_bytes 3 (cd_opts cd)). lia. }
  rewrite parse_enc_fs.
  2:{ unfold def_specs. apply Forall_app. split; [repeat constructor; unfold u32_ok in *; try apply field_ok_small; lia|].
      apply Forall_app. split; [apply Forall_map_FM_ok; [apply field_ok_small; lia|exact Hstreams]|].
      repeat constructor; [apply field_ok_small; lia|exact Hopts]. }
  unfold def_specs.
  rw_spec (all_bytes_spec 2 enc_stream (cd_streams cd) [FV 1 (cd_fmt cd)] [FB 3 (cd_opts cd)]).
  rewrite sequence_res_map_ok.
  2:{ intros s Hin. apply dec_stream_enc. rewrite Forall_forall in Hs. apply Hs. exact Hin. }
  cbn [bind].
  rw_spec (last_varint_spec 1 (cd_fmt cd) [] (map (fun s => FM 2 (enc_stream s)) (cd_streams cd) ++ [FB 3 (cd_opts cd)])).
  rw_spec (last_bytes_spec 3 (cd_opts cd) ([FV 1 (cd_fmt cd)] ++ map (fun s => FM 2 (enc_stream s)) (cd_streams cd)) []).
  rewrite u32_id by exact Hf. destruct cd; reflexivity.
Qed.

(* ---------- (id, definition), (id, value), (stream, value, aggregator) entries ---------- *)
Lemma enc_id_def_fs e : enc_id_def e = enc_fs [FV 1 (fst e); FM 2 (enc_def (snd e))].
Proof. unfold enc_id_def, enc_fs. cbn [flat_map enc_f]. rewrite app_nil_r. reflexivity. Qed.

Lemma dec_id_def_enc e : u32_ok (fst e) -> def_wf (snd e) -> small (enc_id_def e) -> dec_id_def (enc_id_def e) = Ok e.
Proof.
  intros Hc Hd Hsm. unfold dec_id_def. rewrite enc_id_def_fs in *.
  assert (Hbody : small (enc_def (snd e))).
  { eapply small_le; [|exact Hsm]. unfold enc_fs. cbn [flat_map enc_f]. rewrite !app_length.
    pose proof (length_f_msg 2 (enc_def (snd e))). lia. }
  rewrite parse_enc_fs by (repeat constructor; unfold u32_ok in *; try apply field_ok_small; try lia; exact Hbody).
  rw_spec (merged_msg_spec 2 (enc_def (snd e)) [FV 1 (fst e)] []).
  rewrite dec_def_enc by assumption. cbn [bind].
  rw_spec (last_varint_spec 1 (fst e) [] [FM 2 (enc_def (snd e))]).
  rewrite u32_id by exact Hc. destruct e; reflexivity.
Qed.

Lemma enc_id_val_fs e : enc_id_val e = enc_fs [FV 1 (fst e); FV 2 (snd e)].
Proof. unfold enc_id_val, enc_fs. cbn [flat_map enc_f]. rewrite app_nil_r. reflexivity. Qed.

Lemma dec_id_val_enc e : u32_ok (fst e) -> u64_ok (snd e) -> dec_id_val (enc_id_val e) = Ok e.
Proof.
  intros H1 H2. unfold dec_id_val. rewrite enc_id_val_fs.
  rewrite parse_enc_fs by (repeat constructor; unfold u32_ok, u64_ok in *; try apply field_ok_small; lia).
  rw_spec (last_varint_spec 1 (fst e) [] [FV 2 (snd e)]).
  rw_spec (last_varint_spec 2 (snd e) [FV 1 (fst e)] []).
  rewrite u32_id by assumption. destruct e; reflexivity.
Qed.

(* the size side conditions of the stream-value round trip follow from the size of the encoding itself *)
Lemma sval_small_of_small v : small (sval_marshal v) -> sval_small v.
Proof.
  induction v as [d|a b c|t i IH]; cbn [sval_marshal sval_small]; unfold small; intros H.
  - exact H.
  - rewrite !app_length in H.
    pose proof (length_f_bytes 1 (dec_marshal a)). pose proof (length_f_bytes 2 (dec_marshal b)).
    pose proof (length_f_bytes 3 (dec_marshal c)). repeat split; lia.
  - rewrite app_length in H.
    pose proof (length_f_msg 2 (f_varint 1 (sv_type i) ++ f_bytes 2 (sval_marshal i))) as H2.
    assert (Hb : (length (sval_marshal i) <= length (f_varint 1 (sv_type i) ++ f_bytes 2 (sval_marshal i)))%nat).
    { rewrite app_length. pose proof (length_f_bytes 2 (sval_marshal i)). lia. }
    split; [lia|]. split; [lia|]. apply IH. unfold small. lia.
Qed.

Definition sval_wf (v : sval) : Prop := sval_ok v /\ (sval_depth v <= 2)%nat.
Definition agg_wf (e : (Z * Z) * sval) : Prop := u32_ok (fst (fst e)) /\ u32_ok (snd (fst e)) /\ sval_wf (snd e).

Lemma enc_agg_fs e : enc_agg e = enc_fs [FV 1 (fst (fst e)); FM 2 (enc_lsv (snd e)); FV 3 (snd (fst e))].
Proof. unfold enc_agg, enc_fs. cbn [flat_map enc_f]. rewrite app_nil_r. reflexivity. Qed.

Lemma dec_agg_enc e : agg_wf e -> small (enc_agg e) -> dec_agg (enc_agg e) = Ok e.
Proof.
  intros (H1 & H2 & Hok & Hdepth) Hsm. unfold dec_agg. rewrite enc_agg_fs in *.
  assert (Hbody : small (enc_lsv (snd e))).
  { eapply small_le; [|exact Hsm]. unfold enc_fs. cbn [flat_map enc_f]. rewrite !app_length.
    pose proof (length_f_msg 2 (enc_lsv (snd e))). lia. }
  assert (Hval : small (sval_marshal (snd e))).
  { eapply small_le; [|exact Hbody]. unfold enc_lsv. rewrite app_length. pose proof (length_f_bytes 2 (sval_marshal (snd e))). lia. }
  rewrite parse_enc_fs by (repeat constructor; unfold u32_ok in *; try apply field_ok_small; try lia; exact Hbody).
  rw_spec (merged_msg_spec 2 (enc_lsv (snd e)) [FV 1 (fst (fst e))] [FV 3 (snd (fst e))]).
  rewrite (parse_lsv_enc (snd e) Hval : parse_lsv (enc_lsv (snd e)) = _).
  rewrite sval_roundtrip by (try assumption; apply sval_small_of_small; exact Hval). cbn [bind].
  rw_spec (last_varint_spec 1 (fst (fst e)) [] [FM 2 (enc_lsv (snd e)); FV 3 (snd (fst e))]).
  rw_spec (last_varint_spec 3 (snd (fst e)) [FV 1 (fst (fst e)); FM 2 (enc_lsv (snd e))] []).
  rewrite !u32_id by assumption. destruct e as [[a b] v]; reflexivity.
Qed.

(* ---------- the flattened slices determine the maps ---------- *)
Lemma later_wins_perm {K V} `{Countable K} (l : list (K * V)) (m : gmap K V) :
  Permutation l (map_to_list m) -> later_wins l = m.
Proof.
  intros HP. unfold later_wins.
  assert (HP' : rev l ≡ₚ map_to_list m) by (etransitivity; [symmetry; apply Permutation_rev|exact HP]).
  rewrite <- (list_to_map_to_list m). apply list_to_map_proper; [|exact HP'].
  rewrite HP'. apply NoDup_fst_map_to_list.
Qed.
Lemma later_wins_fmap {K V W} `{Countable K} (g : V -> W) (l : list (K * V)) (m : gmap K V) :
  Permutation l (map_to_list m) -> later_wins (map (fun e => (fst e, g (snd e))) l) = g <$> m.
Proof.
  intros HP. unfold later_wins. rewrite <- map_rev.
  change (map (fun e : K * V => (fst e, g (snd e))) (rev l)) with (prod_map id g <$> rev l).
  rewrite list_to_map_fmap. f_equal. apply (later_wins_perm l m HP).
Qed.
Lemma sorted_entries_perm {V} (m : gmap Z V) : Permutation (sorted_entries m) (map_to_list m).
Proof. apply isort_perm. Qed.
Lemma sorted_aggs_perm (m : gmap (Z * Z) sval) : Permutation (sorted_aggs m) (map_to_list m).
Proof. apply isort_perm. Qed.
Lemma in_sorted_entries {V} (m : gmap Z V) e : In e (sorted_entries m) -> m !! fst e = Some (snd e).
Proof.
  intros Hin. apply (Permutation_in _ (sorted_entries_perm m)) in Hin.
  apply elem_of_list_In in Hin. destruct e. apply elem_of_map_to_list in Hin. exact Hin.
Qed.
Lemma in_sorted_aggs (m : gmap (Z * Z) sval) e : In e (sorted_aggs m) -> m !! fst e = Some (snd e).
Proof.
  intros Hin. apply (Permutation_in _ (sorted_aggs_perm m)) in Hin.
  apply elem_of_list_In in Hin. destruct e. apply elem_of_map_to_list in Hin. exact Hin.
Qed.

(* ---------- whole outcomes ---------- *)
Definition stage_canon (s : stage) : Prop := stage_of_bytes (stage_bytes s) = s.
Definition outcome_wf (o : outcome) : Prop :=
  stage_canon (o_stage o) /\ u64_ok (o_ts o) /\
  map_Forall (fun c cd => u32_ok c /\ def_wf cd) (o_defs o) /\
  map_Forall (fun c v => u32_ok c /\ u64_ok v) (o_va o) /\
  map_Forall (fun p v => agg_wf (p, v)) (o_aggs o).

Definition out_specs (o : outcome) (vas : list (Z * Z)) : list fspec :=
  [FB 1 (stage_bytes (o_stage o)); FV 2 (o_ts o)] ++
  map (fun e => FM 3 (enc_id_def e)) (sorted_entries (o_defs o)) ++
  map (fun e => FM 4 (enc_id_val e)) vas ++
  map (fun e => FM 5 (enc_agg e)) (sorted_aggs (o_aggs o)).
Definition vas_of (pver : Z) (o : outcome) : list (Z * Z) :=
  if pver =? 0 then map (fun e => (fst e, snd e / ns_per_s)) (sorted_entries (o_va o)) else sorted_entries (o_va o).

Lemma flat_map_map {A B C} (f : B -> list C) (g : A -> B) l : flat_map f (map g l) = flat_map (fun x => f (g x)) l.
Proof. induction l as [|x l IH]; [reflexivity|]. cbn [map flat_map]. rewrite IH. reflexivity. Qed.

Lemma encode_outcome_fs pver o bs : encode_outcome pver o = Ok bs ->
  bs = enc_fs (out_specs o (vas_of pver o)) /\ ascii_ok (stage_bytes (o_stage o)) = true /\
  (pver =? 0 = true -> o_ts o <= max_int64 /\ map_Forall (fun _ v => v / ns_per_s <= max_uint32) (o_va o)).
Proof.
  unfold encode_outcome, out_specs, vas_of. intros H.
  destruct (ascii_ok (stage_bytes (o_stage o))) eqn:Ea; cbn [negb] in H; [|discriminate].
  rewrite !enc_fs_app, !enc_fs_map_FM. unfold enc_fs at 1. cbn [flat_map enc_f]. rewrite app_nil_r.
  destruct (pver =? 0) eqn:Ep.
  - destruct (bool_decide (map_Forall (fun _ v => v / ns_per_s <= max_uint32) (o_va o))) eqn:Eb; [|discriminate].
    apply bool_decide_eq_true in Eb.
    destruct (max_int64 <? o_ts o) eqn:Et; [discriminate|]. inversion H; subst. clear H.
    rewrite flat_map_map. rewrite <- !app_assoc. split; [reflexivity|]. split; [reflexivity|]. intros _. split; [lia|exact Eb].
  - inversion H; subst. rewrite <- !app_assoc. split; [reflexivity|]. split; [reflexivity|]. discriminate.
Qed.

Theorem decode_encode pver o bs :
  outcome_wf o -> encode_outcome pver o = Ok bs -> small bs -> decode_outcome pver bs = codec_commit pver o.
Proof.
  intros (Hst & Hts & Hdefs & Hva & Haggs) Henc Hsm.
  destruct (encode_outcome_fs pver o bs Henc) as (-> & Hascii & Hv0).
  set (vas := vas_of pver o) in *.
  (* every embedded body is no longer than the whole message *)
  assert (Hlen3 : forall e, In e (sorted_entries (o_defs o)) -> small (enc_id_def e)).
  { intros e Hin. eapply small_le; [|exact Hsm]. unfold out_specs. rewrite !enc_fs_app, !enc_fs_map_FM, !app_length.
    pose proof (length_flat_map_in (fun e => f_msg 3 (enc_id_def e)) e _ Hin). pose proof (length_f_msg 3 (enc_id_def e)). lia. }
  assert (Hlen4 : forall e, In e vas -> small (enc_id_val e)).
  { intros e Hin. eapply small_le; [|exact Hsm]. unfold out_specs. rewrite !enc_fs_app, !enc_fs_map_FM, !app_length.
    pose proof (length_flat_map_in (fun e => f_msg 4 (enc_id_val e)) e _ Hin). pose proof (length_f_msg 4 (enc_id_val e)). lia. }
  assert (Hlen5 : forall e, In e (sorted_aggs (o_aggs o)) -> small (enc_agg e)).
  { intros e Hin. eapply small_le; [|exact Hsm]. unfold out_specs. rewrite !enc_fs_app, !enc_fs_map_FM, !app_length.
    pose proof (length_flat_map_in (fun e => f_msg 5 (enc_agg e)) e _ Hin). pose proof (length_f_msg 5 (enc_agg e)). lia. }
  assert (Hlen1 : small (stage_bytes (o_stage o))).
  { eapply small_le; [|exact Hsm]. unfold out_specs. rewrite !enc_fs_app, !app_length. unfold enc_fs at 1. cbn [flat_map enc_f].
    rewrite !app_length. pose proof (length_f_bytes 1 (stage_bytes (o_stage o))). lia. }
  unfold decode_outcome. rewrite parse_enc_fs.
  2:{ unfold out_specs. apply Forall_app. split.
      { repeat constructor; unfold u64_ok in *; try apply field_ok_small; try lia. exact Hlen1. }
      apply Forall_app. split; [apply Forall_map_FM_ok; [apply field_ok_small; lia|exact Hlen3]|].
      apply Forall_app. split; [apply Forall_map_FM_ok; [apply field_ok_small; lia|exact Hlen4]|].
      apply Forall_map_FM_ok; [apply field_ok_small; lia|exact Hlen5]. }
  unfold out_specs.
  set (D := map (fun e => FM 3 (enc_id_def e)) (sorted_entries (o_defs o))).
  set (V := map (fun e => FM 4 (enc_id_val e)) vas).
  set (G := map (fun e => FM 5 (enc_agg e)) (sorted_aggs (o_aggs o))).
  cbn [app].
  assert (ND : forall k, k <> 3 -> nospec k D) by (intros; apply nospec_map_FM; lia).
  assert (NV : forall k, k <> 4 -> nospec k V) by (intros; apply nospec_map_FM; lia).
  assert (NG : forall k, k <> 5 -> nospec k G) by (intros; apply nospec_map_FM; lia).
  (* stage *)
  pose proof (last_bytes_spec 1 (stage_bytes (o_stage o)) [] (FV 2 (o_ts o) :: D ++ V ++ G)) as E1. cbn [app] in E1.
  rewrite E1 by (nospec_tac; try (first [apply ND|apply NV|apply NG]; lia)). clear E1.
  rewrite Hascii. cbn [negb].
  (* definitions *)
  pose proof (all_bytes_spec 3 enc_id_def (sorted_entries (o_defs o)) [FB 1 (stage_bytes (o_stage o)); FV 2 (o_ts o)] (V ++ G)) as E3.
  cbn [app] in E3. fold D in E3. rewrite E3 by (nospec_tac; try (first [apply ND|apply NV|apply NG]; lia)). clear E3.
  rewrite sequence_res_map_ok.
  2:{ intros e Hin. pose proof (in_sorted_entries _ _ Hin) as Hl. apply Hdefs in Hl. destruct Hl as [Hc Hd].
      apply dec_id_def_enc; [exact Hc|exact Hd|apply Hlen3; exact Hin]. }
  cbn [bind].
  (* aggregates *)
  pose proof (all_bytes_spec 5 enc_agg (sorted_aggs (o_aggs o)) ([FB 1 (stage_bytes (o_stage o)); FV 2 (o_ts o)] ++ D ++ V) []) as E5.
  cbn [app] in E5. fold G in E5. rewrite <- ?app_assoc, ?app_nil_r in E5.
  rewrite E5 by (nospec_tac; try (first [apply ND|apply NV|apply NG]; lia)). clear E5.
  rewrite sequence_res_map_ok.
  2:{ intros e Hin. pose proof (in_sorted_aggs _ _ Hin) as Hl. apply Haggs in Hl.
      apply dec_agg_enc; [destruct e; exact Hl|apply Hlen5; exact Hin]. }
  cbn [bind].
  (* validity starts *)
  pose proof (all_bytes_spec 4 enc_id_val vas ([FB 1 (stage_bytes (o_stage o)); FV 2 (o_ts o)] ++ D) G) as E4.
  cbn [app] in E4. fold V in E4. rewrite <- ?app_assoc in E4.
  rewrite E4 by (nospec_tac; try (first [apply ND|apply NV|apply NG]; lia)). clear E4.
  assert (Hvas : forall e, In e vas -> u32_ok (fst e) /\ u64_ok (snd e)).
  { intros e Hin. subst vas. unfold vas_of in Hin. destruct (pver =? 0).
    - apply in_map_iff in Hin. destruct Hin as (e0 & <- & Hin0). pose proof (in_sorted_entries _ _ Hin0) as Hl.
      apply Hva in Hl. destruct Hl as [Hc Hv]. cbn [fst snd]. split; [exact Hc|]. unfold u64_ok, ns_per_s in *.
      split; [apply Z.div_pos; lia|]. apply Z.div_lt_upper_bound; lia.
    - pose proof (in_sorted_entries _ _ Hin) as Hl. apply Hva in Hl. exact Hl. }
  rewrite sequence_res_map_ok.
  2:{ intros e Hin. destruct (Hvas e Hin). apply dec_id_val_enc; assumption. }
  cbn [bind].
  (* timestamp *)
  pose proof (last_varint_spec 2 (o_ts o) [FB 1 (stage_bytes (o_stage o))] (D ++ V ++ G)) as E2. cbn [app] in E2.
  rewrite E2 by (nospec_tac; try (first [apply ND|apply NV|apply NG]; lia)). clear E2.
  rewrite Hst. rewrite (later_wins_perm _ _ (sorted_entries_perm (o_defs o))).
  rewrite (later_wins_perm _ _ (sorted_aggs_perm (o_aggs o))).
  unfold codec_commit. subst vas. unfold vas_of. destruct (pver =? 0) eqn:Ep.
  - destruct (Hv0 eq_refl) as [Hts63 Hbound]. cbn [andb].
    destruct (2 ^ 63 <=? o_ts o) eqn:E63; [unfold max_int64 in Hts63; lia|].
    destruct (max_int64 <? o_ts o) eqn:Emx; [lia|].
    rewrite bool_decide_eq_true_2 by exact Hbound.
    f_equal. f_equal. rewrite map_map. cbn [fst snd].
    rewrite (map_ext_in _ (fun e => (fst e, (fun v => v / ns_per_s * ns_per_s) (snd e)))).
    + exact (later_wins_fmap (fun v => v / ns_per_s * ns_per_s) _ _ (sorted_entries_perm (o_va o))).
    + intros e Hin. pose proof (in_sorted_entries _ _ Hin) as Hl. pose proof (Hbound _ _ Hl) as Hb. apply Hva in Hl.
      destruct Hl as [_ Hv]. cbn beta in Hb. f_equal. rewrite u32_id; [reflexivity|].
      unfold u32_ok, u64_ok, max_uint32, ns_per_s in *. split; [apply Z.div_pos; lia|lia].
  - cbn [andb]. f_equal.
    rewrite (map_ext _ (fun e => e)) by (intros []; reflexivity). rewrite map_id.
    rewrite (later_wins_perm _ _ (sorted_entries_perm (o_va o))). destruct o; reflexivity.
Qed.

(* ---------- encode-after-decode reproduces the bytes ---------- *)
Lemma sorted_entries_fmap {V W} (g : V -> W) (m : gmap Z V) :
  sorted_entries (g <$> m) = map (fun e => (fst e, g (snd e))) (sorted_entries m).
Proof.
  unfold sorted_entries.
  assert (Hp : Permutation (map_to_list (g <$> m)) (map (fun e => (fst e, g (snd e))) (isort (fun a b => fst a <? fst b) (map_to_list m)))).
  { rewrite map_to_list_fmap. change (prod_map id g <$> map_to_list m) with (map (fun e : Z * V => (fst e, g (snd e))) (map_to_list m)).
    apply Permutation_map. symmetry. apply isort_perm. }
  transitivity (isort (@key_less W) (map (fun e => (fst e, g (snd e))) (isort (fun a b => fst a <? fst b) (map_to_list m)))).
  { apply sorted_by_fst_unique; [exact Hp|]. apply NoDup_ListNoDup. apply NoDup_fst_map_to_list. }
  (* a list already sorted strictly by key is a fixpoint of the sort *)
  symmetry. transitivity (isort (@key_less W) (map (fun e => (fst e, g (snd e))) (map_to_list m))).
  2:{ apply sorted_by_fst_unique.
      - apply Permutation_map. symmetry. apply isort_perm.
      - rewrite map_map. cbn [fst]. apply NoDup_ListNoDup. apply (NoDup_fst_map_to_list m). }
  (* isort commutes with a key-preserving map *)
  clear Hp. unfold isort. rewrite map_rev. f_equal.
  change (@nil (Z * W)) with (map (fun e : Z * V => (fst e, g (snd e))) []).
  generalize (@nil (Z * V)). induction (map_to_list m) as [|x l IH]; intros acc; [reflexivity|].
  cbn [map fold_left]. rewrite IH. f_equal.
  induction acc as [|p r IHr]; [reflexivity|]. cbn [ins_rev map]. unfold key_less. cbn [fst].
  unfold key_less in IHr. destruct (fst x <? fst p); cbn [map]; [rewrite IHr|]; reflexivity.
Qed.

Theorem reencode_stable pver o bs o' :
  outcome_wf o -> small bs -> encode_outcome pver o = Ok bs -> decode_outcome pver bs = Ok o' -> encode_outcome pver o' = Ok bs.
Proof.
  intros Hwf Hsm Henc Hdec. rewrite (decode_encode pver o bs Hwf Henc Hsm) in Hdec.
  unfold codec_commit in Hdec. destruct (pver =? 0) eqn:Ep; [|inversion Hdec; subst; exact Henc].
  destruct (max_int64 <? o_ts o) eqn:Emx; [discriminate|].
  destruct (bool_decide (map_Forall (fun _ v => v / ns_per_s <= max_uint32) (o_va o))) eqn:Eb; [|discriminate].
  inversion Hdec; subst o'. clear Hdec. apply bool_decide_eq_true in Eb.
  unfold encode_outcome in *. cbn [o_stage o_ts o_defs o_va o_aggs]. rewrite Ep in *.
  destruct (negb (ascii_ok (stage_bytes (o_stage o)))); [discriminate|].
  rewrite bool_decide_eq_true_2 in Henc by exact Eb. rewrite Emx in *.
  assert (Hb' : map_Forall (fun _ v => v / ns_per_s <= max_uint32) ((fun v => v / ns_per_s * ns_per_s) <$> o_va o)).
  { intros c v Hl. rewrite lookup_fmap in Hl. destruct (o_va o !! c) as [v0|] eqn:E0; [|discriminate]. inversion Hl; subst.
    specialize (Eb c v0 E0). cbn beta in Eb. unfold ns_per_s in *. rewrite Z.div_mul by lia. exact Eb. }
  rewrite bool_decide_eq_true_2 by exact Hb'. rewrite <- Henc. f_equal. f_equal. f_equal. f_equal. f_equal.
  rewrite sorted_entries_fmap. rewrite flat_map_map. apply flat_map_ext. intros e. cbn [fst snd].
  unfold ns_per_s. rewrite Z.div_mul by lia. reflexivity.
Qed.
