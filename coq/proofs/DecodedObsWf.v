(* DecodedObsWf.v — whatever the observation decoder accepts is well-formed, for ANY input bytes: removal ids and map
   keys are uint32, the timestamp a uint64, every voted definition has uint32 fields, every value has int32 scales,
   uint64 observed-at times and nesting <= 2.  This discharges, from the decoder itself, the well-formedness that
   StepBytes.plugin_outcome_refines assumes of the observations handed to Outcome (aos_good) — except the attestation
   verdict (external) and the < 2^64-bytes size side condition. *)
From stdpp Require Import gmap.
From DS Require Import Base Decimal StreamValue Wire Sort Aggregators RepoConstants Outcome OutcomeCodec Observe ObservationCodec.
From DS Require Import BaseProofs WireProofs StreamValueProofs OutcomeCodecProofs FieldLists OutcomeRoundTrip ReportsNoPanic DecodedWf.
From Coq Require Import Lia.
Open Scope Z_scope.

Lemma map_entry_ok b k body : map_entry b = Some (k, body) -> bok b -> u32_ok k /\ bok body.
Proof.
  unfold map_entry. destruct (parse_fields b) as [fs|] eqn:Ep; [|discriminate]. intros H Hb. inversion H; subst.
  pose proof (parse_fields_ok _ _ Ep Hb) as Hf. split; [apply u32_bound|].
  destruct (merged_msg 2 fs) as [body'|] eqn:Em; [eapply merged_msg_ok; eassumption|constructor].
Qed.

Lemma repeated_u32_ok k fs l : repeated_u32 k fs = Some l -> Forall u32_ok l.
Proof.
  unfold repeated_u32.
  assert (H : forall acc l0, Forall u32_ok l0 -> acc = Some l0 ->
            forall l1, fold_left (fun acc f => match acc with
              | None => None
              | Some l => match f with
                          | (k', RVarint v) => if k' =? k then Some (l ++ [u32 v]) else acc
                          | (k', RBytes b) => if k' =? k then option_map (fun vs => l ++ map u32 vs) (parse_packed_fuel (S (length b)) b) else acc
                          | _ => acc end end) fs acc = Some l1 -> Forall u32_ok l1).
  { induction fs as [|[k' r] fs IH]; intros acc l0 Hl0 -> l1 Hf; [cbn in Hf; inversion Hf; subst; exact Hl0|].
    cbn [fold_left] in Hf. destruct r as [v|b|b|b].
    - destruct (k' =? k); [|eapply IH; [exact Hl0|reflexivity|exact Hf]].
      eapply IH; [|reflexivity|exact Hf]. apply Forall_app. split; [exact Hl0|repeat constructor; apply u32_bound].
    - destruct (k' =? k); [|eapply IH; [exact Hl0|reflexivity|exact Hf]].
      destruct (parse_packed_fuel (S (length b)) b) as [vs|]; cbn [option_map] in Hf.
      + eapply IH; [|reflexivity|exact Hf]. apply Forall_app. split; [exact Hl0|].
        apply List.Forall_forall. intros x Hx. apply in_map_iff in Hx. destruct Hx as (y & <- & _). apply u32_bound.
      + exfalso. clear -Hf. induction fs as [|[k2 r2] fs IHf]; [discriminate|]. cbn [fold_left] in Hf. apply IHf. exact Hf.
    - eapply IH; [exact Hl0|reflexivity|exact Hf].
    - eapply IH; [exact Hl0|reflexivity|exact Hf]. }
  intros Hf. eapply H; [constructor|reflexivity|exact Hf].
Qed.

Definition raw_obs_wf (ob : raw_observation) : Prop :=
  u64_ok (ro_ts ob) /\ Forall u32_ok (ro_removes ob) /\
  map_Forall (fun c cd => u32_ok c /\ def_wf cd) (ro_updates ob) /\
  map_Forall (fun s v => u32_ok s /\ sval_wf v) (ro_values ob).

Theorem decoded_observation_wf bs ob : decode_observation bs = Ok ob -> bok bs -> raw_obs_wf ob.
Proof.
  unfold decode_observation. destruct (parse_fields bs) as [fs|] eqn:Ep; [|discriminate]. intros H Hb.
  pose proof (parse_fields_ok _ _ Ep Hb) as Hf.
  destruct (repeated_u32 4 fs) as [removes|] eqn:Er; [|discriminate].
  destruct (has_dup removes); [discriminate|].
  match type of H with match ?g with Ok ups => _ | Err e => _ | Panic s => _ end = _ => destruct g as [ups| |] eqn:Eu; try discriminate end.
  match type of H with match ?g with Ok vals => _ | Err e => _ | Panic s => _ end = _ => destruct g as [vals| |] eqn:Ev; try discriminate end.
  destruct ((0 <? last_varint 7 fs) || (0 <=? int64_of (last_varint 3 fs))) eqn:Et; [|discriminate].
  inversion H; subst. clear H. unfold raw_obs_wf. cbn [ro_ts ro_removes ro_updates ro_values].
  pose proof (last_varint_bound 7 fs Hf) as H7. pose proof (last_varint_bound 3 fs Hf) as H3.
  split. { unfold u64_ok, int64_of in *. destruct (0 <? last_varint 7 fs); [exact H7|]. cbn [orb] in Et.
           destruct (last_varint 3 fs <? 2 ^ 63); lia. }
  split; [eapply repeated_u32_ok; exact Er|]. split.
  - apply later_wins_Forall. intros e He.
    destruct (sequence_res_ok_inv _ _ _ Eu e He) as (b & Hb' & Hd). cbv beta in Hd.
    pose proof (all_bytes_ok 5 fs Hf) as Hall. rewrite Forall_forall in Hall. specialize (Hall _ Hb').
    destruct (map_entry b) as [[k body]|] eqn:Em; [|discriminate]. destruct (map_entry_ok _ _ _ Em Hall) as [Hk _].
    destruct (dec_def body) as [cd| |] eqn:Edd; try discriminate. cbn [bind] in Hd. inversion Hd; subst.
    split; [exact Hk|eapply dec_def_wf; exact Edd].
  - apply later_wins_Forall. intros e He.
    destruct (sequence_res_ok_inv _ _ _ Ev e He) as (b & Hb' & Hd). cbv beta in Hd.
    pose proof (all_bytes_ok 6 fs Hf) as Hall. rewrite Forall_forall in Hall. specialize (Hall _ Hb').
    destruct (map_entry b) as [[k body]|] eqn:Em; [|discriminate]. destruct (map_entry_ok _ _ _ Em Hall) as [Hk Hbody].
    destruct (parse_lsv body) as [[t data]|] eqn:El; [|discriminate]. pose proof (parse_lsv_ok _ _ _ El Hbody) as Hdata.
    destruct (sval_unmarshal t data) as [v| |] eqn:Es; try discriminate. cbn [bind] in Hd. inversion Hd; subst.
    split; [exact Hk|eapply sval_unmarshal_swf; eassumption].
Qed.
