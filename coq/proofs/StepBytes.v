(* StepBytes.v — Plugin.Outcome at byte level refines the struct-level step the history theorems are about.
   plugin_outcome decodes the previous outcome bytes, runs the step, and ENCODES the result with the outcome codec;
   Outcome.outcome_step (used by C03-C06, C14, C18) instead ends in codec_commit, an abstraction of "encode then
   decode".  Theorem plugin_outcome_refines: for well-formed observations, decoding what plugin_outcome returns gives
   exactly outcome_step applied to the decoded previous outcome — so every history theorem holds of the byte-level
   plugin.  The proof needs that the step preserves well-formedness (ids uint32, times uint64, scales int32, nesting
   <= 2), which is where AggWf.v (aggregates are assembled from their inputs) is used. *)
From stdpp Require Import gmap.
From DS Require Import Base Decimal StreamValue Wire Sort Aggregators RepoConstants Outcome OutcomeCodec PluginOutcome.
From DS Require Import SortProofs OutcomeProofs StepTheorems OutcomeCodecProofs FieldLists OutcomeRoundTrip ReportsNoPanic DecodedWf AggWf.
From Coq Require Import Lia.
Open Scope Z_scope.

(* what ValidateObservation + the observation decoder guarantee about an observation the outcome function sees *)
Definition obs_good (ob : observation) : Prop :=
  u64_ok (ob_ts ob) /\
  map_Forall (fun c cd => u32_ok c /\ def_wf cd) (ob_updates ob) /\
  map_Forall (fun s v => u32_ok s /\ slot_good (Some v)) (ob_values ob) /\
  match ob_att ob with GoodAttest rva => map_Forall (fun c v => u32_ok c /\ u64_ok v) rva | _ => True end.
Definition aos_good (aos : list (option observation)) : Prop :=
  Forall (fun o => match o with Some ob => obs_good ob | None => True end) aos.

Section WithHash.
  Context (h : Z -> chandef -> list Z).

  (* ---------- the byte-level functions ---------- *)
  Definition plugin_outcome_step' (cf : cfg) (seq : Z) (prev : outcome) (aos : list (option observation)) : res (list Z) :=
    let f := c_f cf in
    if (length aos <? 2 * f + 1)%nat then Err EInvalid
    else if seq <=? 1 then encode_outcome (c_pver cf) (initial_outcome cf)
    else
      match accept_observations (c_has_pred cf) aos with
      | Panic s => Panic s
      | Err e => Err e
      | Ok (rr, obs) =>
          match obs with
          | [] => Err ETooFew
          | _ =>
              match median_ts (map ob_ts obs) with
              | Panic s => Panic s
              | Err e => Err e
              | Ok ts =>
                  match collect_aggs f prev obs (referenced_pairs (o_defs (raw_outcome h cf prev rr obs ts ∅))) with
                  | Panic s => Panic s
                  | Err e => Err e
                  | Ok aggs => encode_outcome (c_pver cf) (raw_outcome h cf prev rr obs ts aggs)
                  end
              end
          end
      end.
  (* Plugin.Outcome: previous outcome as bytes (ignored in the first round) *)
  Definition plugin_outcome' (cf : cfg) (seq : Z) (prev_bytes : list Z) (aos : list (option observation)) : res (list Z) :=
    if seq <=? 1 then plugin_outcome_step' cf seq (initial_outcome cf) aos
    else match decode_outcome (c_pver cf) prev_bytes with
         | Ok prev => plugin_outcome_step' cf seq prev aos
         | Err e => Err e
         | Panic s => Panic s
         end.

  (* the same functions as theories/PluginOutcome.v, written with OutcomeProofs.raw_outcome *)
  Lemma plugin_outcome_step_eq cf seq prev aos : plugin_outcome_step h cf seq prev aos = plugin_outcome_step' cf seq prev aos.
  Proof. reflexivity. Qed.
  Lemma plugin_outcome_eq cf seq prev_bytes aos : plugin_outcome h cf seq prev_bytes aos = plugin_outcome' cf seq prev_bytes aos.
  Proof. reflexivity. Qed.

  (* ---------- well-formedness is preserved ---------- *)
  Lemma accept_observations_good has_pred aos rr obs :
    aos_good aos -> accept_observations has_pred aos = Ok (rr, obs) ->
    Forall obs_good obs /\ (forall rva, rr = Some rva -> map_Forall (fun c v => u32_ok c /\ u64_ok v) rva).
  Proof.
    intros Hg Ha. destruct (accept_observations_sound has_pred aos rr obs Ha) as [H1 H2].
    unfold aos_good in Hg. rewrite Forall_forall in Hg. split.
    - apply Forall_forall. intros ob Hob. apply elem_of_list_In in Hob. specialize (H1 ob Hob).
      apply elem_of_list_In in H1. exact (Hg _ H1).
    - intros rva Hr. destruct (H2 rva Hr) as (_ & ob & Hin & Hatt). apply elem_of_list_In in Hin.
      destruct (Hg _ Hin) as (_ & _ & _ & Hm). rewrite Hatt in Hm. exact Hm.
  Qed.

  Lemma foldr_delete_Forall {V} (P : Z -> V -> Prop) (m : gmap Z V) l : map_Forall P m -> map_Forall P (foldr delete m l).
  Proof.
    intros Hm k v Hl. destruct (decide (k ∈ l)) as [Hin|Hnin].
    - rewrite lookup_foldr_delete_in in Hl by exact Hin. discriminate.
    - rewrite lookup_foldr_delete_notin in Hl by exact Hnin. exact (Hm k v Hl).
  Qed.

  Lemma new_defs_good f retired prev obs :
    map_Forall (fun c cd => u32_ok c /\ def_wf cd) prev -> Forall obs_good obs ->
    map_Forall (fun c cd => u32_ok c /\ def_wf cd) (new_defs h f retired prev obs).
  Proof.
    intros Hp Ho. unfold new_defs. destruct retired; [exact Hp|]. intros k d Hl.
    destruct (fold_apply_lookup f obs (isort (cand_less h) (update_candidates obs)) (foldr delete prev (removed_ids f obs)) k) as [He|(d' & He & Hin & _)].
    - rewrite He in Hl. exact (foldr_delete_Forall _ _ _ Hp k d Hl).
    - rewrite He in Hl. inversion Hl; subst d'. apply elem_of_list_In in Hin. apply (Permutation_in _ (isort_perm _ _)) in Hin.
      unfold update_candidates in Hin. apply elem_of_list_In, elem_of_remove_dups, elem_of_list_In, in_flat_map in Hin.
      destruct Hin as (ob & Hob & Hkd). apply elem_of_list_In, elem_of_map_to_list in Hkd.
      rewrite Forall_forall in Ho. destruct (Ho _ Hob) as (_ & Hu & _). exact (Hu k d Hkd).
  Qed.

  Lemma agg_value_good f prev obs p v :
    map_Forall (fun p v => agg_wf (p, v)) (o_aggs prev) -> Forall obs_good obs ->
    agg_value f prev obs p = Ok (Some v) -> sval_wf v.
  Proof.
    intros Hp Ho. destruct p as [sid agg]. unfold agg_value.
    assert (Hvs : Forall slot_good (stream_obs obs sid)).
    { apply Forall_forall. intros s Hs. unfold stream_obs in Hs. apply elem_of_list_In, elem_of_list_omap in Hs.
      destruct Hs as (ob & Hob & Hs). destruct (ob_values ob !! sid) as [x|] eqn:Ex; [|discriminate]. cbn in Hs. inversion Hs; subst.
      apply elem_of_list_In in Hob. rewrite Forall_forall in Ho. destruct (Ho _ Hob) as (_ & _ & Hv & _). exact (proj2 (Hv sid x Ex)). }
    assert (Hcopied : forall t i, o_aggs prev !! (sid, agg) = Some (STsv t i) -> sval_wf (STsv t i)).
    { intros t i Hl. destruct (Hp _ _ Hl) as (_ & _ & Hw). exact Hw. }
    unfold agg_fun. destruct (agg =? 1) eqn:E1.
    { destruct (median_agg (stream_obs obs sid) f) as [r| |] eqn:Em.
      - pose proof (median_agg_wf _ _ _ Hvs Em) as Hr. destruct r as [d|a b c|t i].
        + intros H. inversion H; subst. exact Hr.
        + intros H. inversion H; subst. exact Hr.
        + destruct (o_aggs prev !! (sid, agg)) as [[?|? ? ?|pt pi]|] eqn:Ec; try (intros H; inversion H; subst; exact Hr).
          destruct (t <=? pt); intros H; inversion H; subst; [apply Hcopied; reflexivity|exact Hr].
      - destruct (o_aggs prev !! (sid, agg)) as [[?|? ? ?|pt pi]|] eqn:Ec; try discriminate.
        intros H. inversion H; subst. apply Hcopied. reflexivity.
      - discriminate. }
    destruct (agg =? 2) eqn:E2.
    { destruct (mode_agg (stream_obs obs sid) f) as [[r|]| |] eqn:Em.
      - pose proof (mode_agg_wf _ _ _ Hvs Em) as Hr. destruct r as [d|a b c|t i].
        + intros H. inversion H; subst. exact Hr.
        + intros H. inversion H; subst. exact Hr.
        + destruct (o_aggs prev !! (sid, agg)) as [[?|? ? ?|pt pi]|] eqn:Ec; try (intros H; inversion H; subst; exact Hr).
          destruct (t <=? pt); intros H; inversion H; subst; [apply Hcopied; reflexivity|exact Hr].
      - discriminate.
      - destruct (o_aggs prev !! (sid, agg)) as [[?|? ? ?|pt pi]|] eqn:Ec; try discriminate.
        intros H. inversion H; subst. apply Hcopied. reflexivity.
      - discriminate. }
    destruct (agg =? 3) eqn:E3; [|discriminate].
    destruct (quote_agg (stream_obs obs sid) f) as [r| |] eqn:Em.
    - pose proof (quote_agg_wf _ _ _ Hvs Em) as Hr. destruct r as [d|a b c|t i].
      + intros H. inversion H; subst. exact Hr.
      + intros H. inversion H; subst. exact Hr.
      + destruct (o_aggs prev !! (sid, agg)) as [[?|? ? ?|pt pi]|] eqn:Ec; try (intros H; inversion H; subst; exact Hr).
        destruct (t <=? pt); intros H; inversion H; subst; [apply Hcopied; reflexivity|exact Hr].
    - destruct (o_aggs prev !! (sid, agg)) as [[?|? ? ?|pt pi]|] eqn:Ec; try discriminate.
      intros H. inversion H; subst. apply Hcopied. reflexivity.
    - discriminate.
  Qed.

  Lemma referenced_pairs_good defs p :
    map_Forall (fun c cd => u32_ok c /\ def_wf cd) defs -> p ∈ referenced_pairs defs -> stream_wf p.
  Proof.
    intros Hd Hp. unfold referenced_pairs in Hp. apply elem_of_remove_dups, elem_of_list_In, in_flat_map in Hp.
    destruct Hp as ([c cd] & Hin & Hs). apply elem_of_list_In, elem_of_map_to_list in Hin.
    destruct (Hd c cd Hin) as [_ [_ Hst]]. rewrite Forall_forall in Hst. exact (Hst _ Hs).
  Qed.

  Lemma stage2_canon f prev rr obs : stage_canon (o_stage prev) -> stage_canon (stage2_of f prev rr obs).
  Proof.
    intros Hp. unfold stage2_of, stage1_of. destruct (promoted_of prev rr).
    - destruct (bool_decide (Production = Production) && _); reflexivity.
    - destruct (bool_decide (o_stage prev = Production) && _); [reflexivity|exact Hp].
  Qed.

  Theorem raw_outcome_wf cf prev rr obs ts aggs :
    outcome_wf prev -> Forall obs_good obs -> (forall rva, rr = Some rva -> map_Forall (fun c v => u32_ok c /\ u64_ok v) rva) ->
    u64_ok ts ->
    collect_aggs (c_f cf) prev obs (referenced_pairs (o_defs (raw_outcome h cf prev rr obs ts aggs))) = Ok aggs ->
    outcome_wf (raw_outcome h cf prev rr obs ts aggs).
  Proof.
    intros (Hst & Hts & Hdefs & Hva & Haggs) Ho Hrr Ht Hc. unfold raw_outcome in *. cbn [o_defs] in Hc.
    set (st2 := stage2_of (c_f cf) prev rr obs) in *. set (retired := bool_decide (st2 = Retired)) in *.
    pose proof (new_defs_good (c_f cf) retired (o_defs prev) obs Hdefs Ho) as Hnd.
    unfold outcome_wf. cbn [o_stage o_ts o_defs o_va o_aggs].
    split; [apply stage2_canon; exact Hst|]. split; [exact Ht|]. split; [exact Hnd|]. split.
    - apply foldr_delete_Forall. intros c v Hl. apply lookup_union_Some_raw in Hl. destruct Hl as [Hl|[_ Hl]].
      + unfold va0_of in Hl.
        assert (Hcar : forall c v, carried_va cf prev !! c = Some v -> u32_ok c /\ u64_ok v).
        { intros c0 v0 H0. unfold carried_va in H0. rewrite map_lookup_imap in H0.
          destruct (o_va prev !! c0) as [pva|] eqn:Ep; [|discriminate]. cbn in H0. inversion H0; subst.
          destruct (Hva c0 pva Ep) as [Hc0 Hp0]. split; [exact Hc0|]. destruct (is_reportable _ _ _ _); assumption. }
        destruct rr as [rva|]; [|exact (Hcar c v Hl)].
        destruct (promoted_of prev (Some rva) && negb (bool_decide (rva = ∅))); [exact (Hrr rva eq_refl c v Hl)|exact (Hcar c v Hl)].
      + rewrite lookup_fmap in Hl. destruct (new_defs h (c_f cf) retired (o_defs prev) obs !! c) as [cd|] eqn:Ed; [|discriminate].
        cbn in Hl. inversion Hl; subst. split; [exact (proj1 (Hnd c cd Ed))|exact Ht].
    - intros p v Hl. destruct (collect_aggs_lookup (c_f cf) prev obs _ aggs p Hc) as [[Hn _]|(v' & Hs & Hin & Hav)]; [congruence|].
      rewrite Hl in Hs. inversion Hs; subst v'.
      pose proof (referenced_pairs_good _ p Hnd Hin) as [Hp1 Hp2].
      split; [exact Hp1|]. split; [exact Hp2|]. exact (agg_value_good (c_f cf) prev obs p v Haggs Ho Hav).
  Qed.

  (* ---------- refinement ---------- *)
  Lemma initial_outcome_wf cf : outcome_wf (initial_outcome cf).
  Proof.
    unfold outcome_wf, initial_outcome. cbn [o_stage o_ts o_defs o_va o_aggs].
    split; [destruct (c_has_pred cf); reflexivity|]. split; [unfold u64_ok; lia|].
    split; [apply map_Forall_empty|]. split; apply map_Forall_empty.
  Qed.

  Theorem plugin_outcome_step_refines cf seq prev aos bs :
    outcome_wf prev -> aos_good aos -> plugin_outcome_step h cf seq prev aos = Ok bs -> small bs ->
    decode_outcome (c_pver cf) bs = outcome_step h cf seq prev aos.
  Proof.
    intros Hwf Hg H Hsm. rewrite plugin_outcome_step_eq in H. unfold plugin_outcome_step' in H. unfold outcome_step.
    destruct (length aos <? 2 * c_f cf + 1)%nat; [discriminate|].
    destruct (seq <=? 1).
    { exact (decode_encode _ _ _ (initial_outcome_wf cf) H Hsm). }
    destruct (accept_observations (c_has_pred cf) aos) as [[rr obs]|e|s] eqn:Ea; try discriminate.
    destruct (accept_observations_good _ _ _ _ Hg Ea) as [Ho Hrr].
    destruct obs as [|o1 obs']; [discriminate|]. set (obs := o1 :: obs') in *.
    destruct (median_ts (map ob_ts obs)) as [ts|e|s] eqn:Et; try discriminate.
    assert (Hts : u64_ok ts).
    { apply median_ts_in in Et. apply in_map_iff in Et. destruct Et as (ob & <- & Hob). rewrite Forall_forall in Ho. exact (proj1 (Ho _ Hob)). }
    change (collect_aggs (c_f cf) prev obs (referenced_pairs (new_defs h (c_f cf) _ (o_defs prev) obs)))
      with (collect_aggs (c_f cf) prev obs (referenced_pairs (o_defs (raw_outcome h cf prev rr obs ts ∅)))).
    destruct (collect_aggs (c_f cf) prev obs (referenced_pairs (o_defs (raw_outcome h cf prev rr obs ts ∅)))) as [aggs|e|s] eqn:Ec; try discriminate.
    assert (Hraw : outcome_wf (raw_outcome h cf prev rr obs ts aggs)) by (apply raw_outcome_wf; assumption).
    rewrite (decode_encode _ _ _ Hraw H Hsm). reflexivity.
  Qed.

  Theorem plugin_outcome_refines cf seq prev_bytes aos bs :
    bok prev_bytes -> aos_good aos -> plugin_outcome h cf seq prev_bytes aos = Ok bs -> small bs ->
    decode_outcome (c_pver cf) bs =
    outcome_step h cf seq (match decode_outcome (c_pver cf) prev_bytes with Ok p => p | _ => initial_outcome cf end) aos.
  Proof.
    intros Hb Hg H Hsm. unfold plugin_outcome in H. destruct (seq <=? 1) eqn:Es.
    - rewrite (plugin_outcome_step_refines cf seq (initial_outcome cf) aos bs (initial_outcome_wf cf) Hg H Hsm).
      unfold outcome_step. rewrite Es. destruct (length aos <? 2 * c_f cf + 1)%nat; reflexivity.
    - destruct (decode_outcome (c_pver cf) prev_bytes) as [prev| |] eqn:Ed; try discriminate.
      apply plugin_outcome_step_refines; try assumption. eapply decoded_outcome_wf; eassumption.
  Qed.
End WithHash.
