(* ObservationRoundTrip.v — C16: the observation envelope at byte level.  Whatever order Go's proto.Marshal and
   maps.Keys happen to use for the two map fields and the removal ids, decoding the bytes returns the observation:
   timestamp over the full uint64 range (through the legacy/new field pair), retire flag, attestation, the removal
   ids, every channel definition and every stream value. *)
From stdpp Require Import gmap.
From DS Require Import Base Decimal StreamValue Wire Sort Aggregators RepoConstants Outcome OutcomeCodec Observe ObservationCodec.
From DS Require Import BaseProofs WireProofs StreamValueProofs SortProofs OutcomeOrder OutcomeCodecProofs FieldLists OutcomeRoundTrip.
From Coq Require Import Lia.
Open Scope Z_scope.

(* ---------- packed repeated varints ---------- *)
Lemma parse_packed_varints rms : Forall u64_ok rms ->
  forall fuel, (length rms < fuel)%nat -> parse_packed_fuel fuel (flat_map varint rms) = Some rms.
Proof.
  induction rms as [|v rms IH]; intros Hall fuel Hf.
  - destruct fuel; [lia|reflexivity].
  - inversion Hall as [|? ? Hv Hr]; subst. destruct fuel as [|fuel]; [simpl in Hf; lia|].
    cbn [flat_map parse_packed_fuel].
    destruct (varint v ++ flat_map varint rms) as [|b bs] eqn:Eb.
    { exfalso. pose proof (varint_nonempty v). destruct (varint v); [congruence|discriminate]. }
    rewrite <- Eb. rewrite parse_varint_varint by exact Hv. rewrite IH; [reflexivity|exact Hr|simpl in Hf; lia].
Qed.
Lemma length_flat_map_varint rms : (length rms <= length (flat_map varint rms))%nat.
Proof.
  induction rms as [|v rms IH]; [simpl; lia|]. cbn [flat_map length]. rewrite app_length.
  pose proof (nonempty_length _ (varint_nonempty v)). lia.
Qed.

Definition ru_step (field : Z) (acc : option (list Z)) (f : rawfield) : option (list Z) :=
  match acc with
  | None => None
  | Some l => match f with
              | (k, RVarint v) => if k =? field then Some (l ++ [u32 v]) else acc
              | (k, RBytes b) => if k =? field then option_map (fun vs => l ++ map u32 vs) (parse_packed_fuel (S (length b)) b) else acc
              | _ => acc
              end
  end.
Lemma repeated_u32_fold field fs : repeated_u32 field fs = fold_left (ru_step field) fs (Some []).
Proof. reflexivity. Qed.
Lemma fold_nokey_ru k fs acc : nokey k fs -> fold_left (ru_step k) fs acc = acc.
Proof.
  revert acc. induction fs as [|[k' r] fs IH]; intros acc H; [reflexivity|].
  inversion H as [|? ? Hk Hr]; subst. cbn [fold_left]. simpl in Hk.
  rewrite IH by exact Hr. destruct acc as [l|]; [|reflexivity]. cbn [ru_step].
  destruct r; try reflexivity; destruct (k' =? k) eqn:E; try reflexivity; lia.
Qed.

Theorem repeated_u32_spec k rms pre post : nospec k pre -> nospec k post -> Forall u32_ok rms ->
  repeated_u32 k (raw_fs (pre ++ FB k (flat_map varint rms) :: post)) = Some rms.
Proof.
  intros Hp Hq Hall. rewrite raw_fs_app, repeated_u32_fold, fold_left_app.
  rewrite (fold_nokey_ru k _ _ (nokey_raw k pre Hp)).
  change (raw_fs (FB k (flat_map varint rms) :: post)) with (raw_f (FB k (flat_map varint rms)) ++ raw_fs post).
  rewrite fold_left_app. rewrite (fold_nokey_ru k _ _ (nokey_raw k post Hq)).
  cbn [raw_f]. destruct (flat_map varint rms) as [|b bs] eqn:Eb.
  - destruct rms as [|v rms]; [reflexivity|]. exfalso. cbn [flat_map] in Eb.
    pose proof (varint_nonempty v). destruct (varint v); [congruence|discriminate].
  - cbn [fold_left ru_step]. rewrite Z.eqb_refl. rewrite <- Eb.
    rewrite parse_packed_varints.
    + cbn [option_map app]. f_equal. rewrite <- (map_id rms) at 2. apply map_ext_in. intros v Hv.
      apply u32_id. rewrite Forall_forall in Hall. apply Hall. exact Hv.
    + eapply Forall_impl; [|exact Hall]. unfold u32_ok, u64_ok. lia.
    + pose proof (length_flat_map_varint rms). lia.
Qed.

Lemma has_dup_nodup l : List.NoDup l -> has_dup l = false.
Proof.
  induction l as [|x l IH]; intros H; [reflexivity|]. inversion H as [|? ? Hn Hl]; subst. cbn [has_dup].
  rewrite (IH Hl), orb_false_r. apply not_true_is_false. intros He. apply existsb_exists in He.
  destruct He as (y & Hy & Hxy). apply Z.eqb_eq in Hxy. subst y. exact (Hn Hy).
Qed.

(* ---------- map entries ---------- *)
Lemma enc_entry_fs k body : enc_entry k body = enc_fs [FVA 1 k; FM 2 body].
Proof. unfold enc_entry, enc_fs. cbn [flat_map enc_f]. rewrite app_nil_r. reflexivity. Qed.

Lemma map_entry_enc k body : u32_ok k -> small body -> map_entry (enc_entry k body) = Some (k, body).
Proof.
  intros Hk Hb. unfold map_entry. rewrite enc_entry_fs.
  rewrite parse_enc_fs by (repeat constructor; unfold u32_ok in *; try apply field_ok_small; try lia; exact Hb).
  rw_spec (last_varint_always_spec 1 k [] [FM 2 body]).
  rw_spec (merged_msg_spec 2 body [FVA 1 k] []).
  rewrite u32_id by exact Hk. reflexivity.
Qed.
Lemma length_enc_entry k body : (length body <= length (enc_entry k body))%nat.
Proof. unfold enc_entry. rewrite !app_length. pose proof (length_f_msg 2 body). lia. Qed.

(* ---------- whole observations ---------- *)
Definition obs_wf (ob : raw_observation) : Prop :=
  u64_ok (ro_ts ob) /\ Forall u32_ok (ro_removes ob) /\
  map_Forall (fun c cd => u32_ok c /\ def_wf cd) (ro_updates ob) /\
  map_Forall (fun s v => u32_ok s /\ sval_wf v) (ro_values ob).

Definition obs_specs (rms : list Z) (ups : list (Z * chandef)) (vals : list (Z * sval)) (ob : raw_observation) : list fspec :=
  [FB 1 (ro_att ob); FV 2 (if ro_retire ob then 1 else 0); FV 3 (ro_ts ob); FB 4 (flat_map varint rms)] ++
  map (fun e => FM 5 (enc_entry (fst e) (enc_def (snd e)))) ups ++
  map (fun e => FM 6 (enc_entry (fst e) (enc_lsv (snd e)))) vals ++
  [FV 7 (ro_ts ob)].
Lemma encode_observation_fs rms ups vals ob : encode_observation rms ups vals ob = enc_fs (obs_specs rms ups vals ob).
Proof.
  unfold encode_observation, obs_specs. rewrite !enc_fs_app, !enc_fs_map_FM. unfold enc_fs. cbn [flat_map enc_f].
  rewrite !app_nil_r, <- !app_assoc. reflexivity.
Qed.

Theorem observation_roundtrip rms ups vals ob :
  obs_wf ob ->
  Permutation rms (ro_removes ob) -> Permutation ups (map_to_list (ro_updates ob)) -> Permutation vals (map_to_list (ro_values ob)) ->
  small (encode_observation rms ups vals ob) ->
  decode_observation (encode_observation rms ups vals ob) =
  if has_dup rms then Err EInvalid     (* a removal id listed twice: refused *)
  else Ok {| ro_att := ro_att ob; ro_retire := ro_retire ob; ro_ts := ro_ts ob; ro_removes := rms;
             ro_updates := ro_updates ob; ro_values := ro_values ob |}.
Proof.
  intros (Hts & Hrm32 & Hups & Hvals) Prm Pup Pval Hsm.
  rewrite encode_observation_fs in *.
  assert (Hrms : Forall u32_ok rms).
  { rewrite Forall_forall in *. intros x Hx. apply Hrm32. apply (Permutation_in _ Prm). exact Hx. }
  assert (Hin_up : forall e, In e ups -> ro_updates ob !! fst e = Some (snd e)).
  { intros e Hin. apply (Permutation_in _ Pup) in Hin. apply elem_of_list_In in Hin. destruct e. apply elem_of_map_to_list in Hin. exact Hin. }
  assert (Hin_val : forall e, In e vals -> ro_values ob !! fst e = Some (snd e)).
  { intros e Hin. apply (Permutation_in _ Pval) in Hin. apply elem_of_list_In in Hin. destruct e. apply elem_of_map_to_list in Hin. exact Hin. }
  assert (Hlen1 : small (ro_att ob)).
  { eapply small_le; [|exact Hsm]. unfold obs_specs. rewrite enc_fs_app, app_length. unfold enc_fs at 1. cbn [flat_map enc_f].
    rewrite !app_length. pose proof (length_f_bytes 1 (ro_att ob)). lia. }
  assert (Hlen4 : small (flat_map varint rms)).
  { eapply small_le; [|exact Hsm]. unfold obs_specs. rewrite enc_fs_app, app_length. unfold enc_fs at 1. cbn [flat_map enc_f].
    rewrite !app_length. pose proof (length_f_bytes 4 (flat_map varint rms)). lia. }
  assert (Hlen5 : forall e, In e ups -> small (enc_entry (fst e) (enc_def (snd e)))).
  { intros e Hin. eapply small_le; [|exact Hsm]. unfold obs_specs. rewrite !enc_fs_app, !enc_fs_map_FM, !app_length.
    pose proof (length_flat_map_in (fun e => f_msg 5 (enc_entry (fst e) (enc_def (snd e)))) e _ Hin).
    pose proof (length_f_msg 5 (enc_entry (fst e) (enc_def (snd e)))). lia. }
  assert (Hlen6 : forall e, In e vals -> small (enc_entry (fst e) (enc_lsv (snd e)))).
  { intros e Hin. eapply small_le; [|exact Hsm]. unfold obs_specs. rewrite !enc_fs_app, !enc_fs_map_FM, !app_length.
    pose proof (length_flat_map_in (fun e => f_msg 6 (enc_entry (fst e) (enc_lsv (snd e)))) e _ Hin).
    pose proof (length_f_msg 6 (enc_entry (fst e) (enc_lsv (snd e)))). lia. }
  unfold decode_observation. rewrite parse_enc_fs.
  2:{ unfold obs_specs. apply Forall_app. split.
      { repeat constructor; unfold u64_ok in *; try apply field_ok_small; try lia; try assumption; destruct (ro_retire ob); lia. }
      apply Forall_app. split; [apply Forall_map_FM_ok; [apply field_ok_small; lia|exact Hlen5]|].
      apply Forall_app. split; [apply Forall_map_FM_ok; [apply field_ok_small; lia|exact Hlen6]|].
      repeat constructor; unfold u64_ok in *; try apply field_ok_small; lia. }
  unfold obs_specs.
  set (R := if ro_retire ob then 1 else 0).
  set (U := map (fun e => FM 5 (enc_entry (fst e) (enc_def (snd e)))) ups).
  set (W := map (fun e => FM 6 (enc_entry (fst e) (enc_lsv (snd e)))) vals).
  cbn [app].
  assert (NU : forall k, k <> 5 -> nospec k U) by (intros; apply nospec_map_FM; lia).
  assert (NW : forall k, k <> 6 -> nospec k W) by (intros; apply nospec_map_FM; lia).
  (* removal ids *)
  pose proof (repeated_u32_spec 4 rms [FB 1 (ro_att ob); FV 2 R; FV 3 (ro_ts ob)] (U ++ W ++ [FV 7 (ro_ts ob)])) as E4. cbn [app] in E4.
  rewrite E4 by (try exact Hrms; nospec_tac; try (first [apply NU|apply NW]; lia)). clear E4.
  destruct (has_dup rms); [reflexivity|].
  (* channel definitions *)
  pose proof (all_bytes_spec 5 (fun e : Z * chandef => enc_entry (fst e) (enc_def (snd e))) ups
                [FB 1 (ro_att ob); FV 2 R; FV 3 (ro_ts ob); FB 4 (flat_map varint rms)] (W ++ [FV 7 (ro_ts ob)])) as E5.
  cbn [app] in E5. fold U in E5. rewrite E5 by (nospec_tac; try (first [apply NU|apply NW]; lia)). clear E5.
  rewrite (sequence_res_map_ok (fun e : Z * chandef => enc_entry (fst e) (enc_def (snd e)))).
  2:{ intros e Hin. pose proof (Hin_up e Hin) as Hl. apply Hups in Hl. destruct Hl as [Hc Hd].
      pose proof (Hlen5 e Hin) as Hs5.
      assert (Hsd : small (enc_def (snd e))) by (eapply small_le; [apply length_enc_entry|exact Hs5]).
      rewrite map_entry_enc by assumption. rewrite dec_def_enc by assumption. destruct e; reflexivity. }
  (* stream values *)
  pose proof (all_bytes_spec 6 (fun e : Z * sval => enc_entry (fst e) (enc_lsv (snd e))) vals
                ([FB 1 (ro_att ob); FV 2 R; FV 3 (ro_ts ob); FB 4 (flat_map varint rms)] ++ U) [FV 7 (ro_ts ob)]) as E6.
  cbn [app] in E6. fold W in E6. rewrite <- ?app_assoc in E6.
  rewrite E6 by (nospec_tac; try (first [apply NU|apply NW]; lia)). clear E6.
  rewrite (sequence_res_map_ok (fun e : Z * sval => enc_entry (fst e) (enc_lsv (snd e)))).
  2:{ intros e Hin. pose proof (Hin_val e Hin) as Hl. apply Hvals in Hl. destruct Hl as [Hc [Hok Hdepth]].
      pose proof (Hlen6 e Hin) as Hs6.
      assert (Hsl : small (enc_lsv (snd e))) by (eapply small_le; [apply length_enc_entry|exact Hs6]).
      assert (Hsv : small (sval_marshal (snd e))).
      { eapply small_le; [|exact Hsl]. unfold enc_lsv. rewrite app_length. pose proof (length_f_bytes 2 (sval_marshal (snd e))). lia. }
      rewrite map_entry_enc by assumption.
      rewrite (parse_lsv_enc (snd e) Hsv : parse_lsv (enc_lsv (snd e)) = _).
      rewrite sval_roundtrip by (try assumption; apply sval_small_of_small; exact Hsv). destruct e; reflexivity. }
  (* scalars *)
  pose proof (last_varint_spec 7 (ro_ts ob) ([FB 1 (ro_att ob); FV 2 R; FV 3 (ro_ts ob); FB 4 (flat_map varint rms)] ++ U ++ W) []) as E7.
  cbn [app] in E7. rewrite <- ?app_assoc in E7.
  rewrite E7 by (nospec_tac; try (first [apply NU|apply NW]; lia)). clear E7.
  pose proof (last_varint_spec 3 (ro_ts ob) [FB 1 (ro_att ob); FV 2 R] (FB 4 (flat_map varint rms) :: U ++ W ++ [FV 7 (ro_ts ob)])) as E3.
  cbn [app] in E3. rewrite E3 by (nospec_tac; try (first [apply NU|apply NW]; lia)). clear E3.
  pose proof (last_varint_spec 2 R [FB 1 (ro_att ob)] (FV 3 (ro_ts ob) :: FB 4 (flat_map varint rms) :: U ++ W ++ [FV 7 (ro_ts ob)])) as E2.
  cbn [app] in E2. rewrite E2 by (nospec_tac; try (first [apply NU|apply NW]; lia)). clear E2.
  pose proof (last_bytes_spec 1 (ro_att ob) [] (FV 2 R :: FV 3 (ro_ts ob) :: FB 4 (flat_map varint rms) :: U ++ W ++ [FV 7 (ro_ts ob)])) as E1.
  cbn [app] in E1. rewrite E1 by (nospec_tac; try (first [apply NU|apply NW]; lia)). clear E1.
  rewrite (later_wins_perm _ _ Pup), (later_wins_perm _ _ Pval).
  unfold u64_ok in Hts. unfold int64_of.
  destruct (0 <? ro_ts ob) eqn:E0; cbn [orb].
  - f_equal. f_equal. subst R. destruct (ro_retire ob); reflexivity.
  - assert (ro_ts ob = 0) by lia. rewrite H. cbn. f_equal. f_equal. subst R. destruct (ro_retire ob); reflexivity.
Qed.
