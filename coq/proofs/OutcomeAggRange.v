(* OutcomeAggRange.v — C02 at the level of Plugin.Outcome: a Decimal aggregate that the new outcome holds for a
   (stream, median) pair lies between two values reported for that stream by correct observers of this round, whenever
   the correct observers' present values for the stream outnumber the faulty ones and are of one kind; and a Quote
   aggregate for a (stream, quote) pair is ordered and component-wise within the correct observers' range. *)
From stdpp Require Import gmap.
From DS Require Import Base Decimal StreamValue Sort Aggregators RepoConstants Outcome.
From DS Require Import OutcomeProofs StepTheorems RankMedian DecimalProofs AggregatorProofs.
From Coq Require Import Lia.
Open Scope Z_scope.

Section AggRange.
  Context (h : Z -> chandef -> list Z).

  (* the values the accepted observations carry for stream sid, tagged with "from a correct observer" *)
  Definition accepted_vals (taos : list (option observation * bool)) (sid : Z) : list (option sval * bool) :=
    omap (fun p : observation * bool => option_map (fun v => (Some v, snd p)) (ob_values (fst p) !! sid)) (accept_tagged false taos).

  Lemma accepted_vals_fst taos sid : map fst (accepted_vals taos sid) = stream_obs (map fst (accept_tagged false taos)) sid.
  Proof.
    unfold accepted_vals, stream_obs. induction (accept_tagged false taos) as [|[ob t] l IH]; [reflexivity|].
    cbn [map omap list_omap fst snd]. destruct (ob_values ob !! sid) as [v|]; cbn [option_map]; [cbn [map fst]; f_equal; exact IH|exact IH].
  Qed.

  Lemma step_aggregate cf seq prev taos next p v :
    1 < seq -> outcome_step h cf seq prev (map fst taos) = Ok next -> o_aggs next !! p = Some v ->
    agg_value (c_f cf) prev (map fst (accept_tagged false taos)) p = Ok (Some v).
  Proof.
    intros Hseq H Hl.
    destruct (outcome_step_inv h cf seq prev _ next Hseq H) as (rr & obs & ts & aggs & Ha & _ & _ & Hagg & Hc).
    destruct (codec_commit_fields _ _ _ Hc) as (_ & _ & _ & Hag & _). cbn [o_aggs raw_outcome] in Hag. rewrite Hag in Hl.
    unfold accept_observations in Ha. apply accept_tagged_spec in Ha. simpl in Ha. subst obs.
    destruct (collect_aggs_lookup (c_f cf) prev _ _ aggs p Hagg) as [[Hn _]|(v' & Hs & _ & Hav)]; [congruence|].
    rewrite Hl in Hs. inversion Hs; subst. exact Hav.
  Qed.

  Theorem outcome_median_in_honest_range cf seq prev (taos : list (option observation * bool)) next sid d T :
    1 < seq -> outcome_step h cf seq prev (map fst taos) = Ok next ->
    o_aggs next !! (sid, 1) = Some (SDec d) ->
    (T = 0 \/ T = 1) -> honest_type T (accepted_vals taos sid) ->
    (fpres (accepted_vals taos sid) < hpres (accepted_vals taos sid))%nat ->
    exists lo hi xl xh, In (Some xl, true) (accepted_vals taos sid) /\ In (Some xh, true) (accepted_vals taos sid) /\
                        In lo (num_of xl) /\ In hi (num_of xh) /\ dle lo d /\ dle d hi.
  Proof.
    intros Hseq H Hl HT Hh Hmaj. pose proof (step_aggregate cf seq prev taos next (sid, 1) (SDec d) Hseq H Hl) as Hav.
    unfold agg_value, agg_fun in Hav. cbn [Z.eqb Pos.eqb] in Hav.
    rewrite <- accepted_vals_fst in Hav.
    destruct (median_agg (map fst (accepted_vals taos sid)) (c_f cf)) as [r| |] eqn:Em.
    - destruct r as [d'|? ? ?|t i].
      + inversion Hav; subst d'. destruct (median_in_honest_range T _ _ _ HT Hh Hmaj Em) as (d0 & lo & hi & xl & xh & Hr & H1 & H2 & H3 & H4 & H5 & H6).
        inversion Hr; subst d0. exists lo, hi, xl, xh. repeat split; assumption.
      + discriminate.
      + destruct (o_aggs prev !! (sid, 1)) as [[?|? ? ?|pt pi]|]; try discriminate. destruct (t <=? pt); discriminate.
    - destruct (o_aggs prev !! (sid, 1)) as [[?|? ? ?|pt pi]|]; discriminate.
    - discriminate.
  Qed.

  Theorem outcome_quote_in_honest_range cf seq prev (taos : list (option observation * bool)) next sid bid bm ask :
    1 < seq -> outcome_step h cf seq prev (map fst taos) = Ok next ->
    o_aggs next !! (sid, 3) = Some (SQuote bid bm ask) ->
    honest_quote (accepted_vals taos sid) ->
    (fpres (accepted_vals taos sid) < hpres (accepted_vals taos sid))%nat ->
    dle bid bm /\ dle bm ask /\
    (exists l hh, In (Some l, true) (accepted_vals taos sid) /\ In (Some hh, true) (accepted_vals taos sid) /\
                  (exists a b c, l = SQuote a b c /\ dle b bm) /\ (exists a b c, hh = SQuote a b c /\ dle bm b)).
  Proof.
    intros Hseq H Hl Hh Hmaj. pose proof (step_aggregate cf seq prev taos next (sid, 3) _ Hseq H Hl) as Hav.
    unfold agg_value, agg_fun in Hav. cbn [Z.eqb Pos.eqb] in Hav. rewrite <- accepted_vals_fst in Hav.
    destruct (quote_agg (map fst (accepted_vals taos sid)) (c_f cf)) as [r| |] eqn:Em.
    - destruct r as [?|b0 m0 a0|t i].
      + discriminate.
      + inversion Hav; subst.
        destruct (quote_in_honest_range_and_ordered _ _ _ Hh Hmaj Em) as (b1 & m1 & a1 & Hr & Hbm & Hma & _ & Hmid & _).
        inversion Hr; subst. split; [exact Hbm|]. split; [exact Hma|]. exact Hmid.
      + destruct (o_aggs prev !! (sid, 3)) as [[?|? ? ?|pt pi]|]; try discriminate. destruct (t <=? pt); discriminate.
    - destruct (o_aggs prev !! (sid, 3)) as [[?|? ? ?|pt pi]|]; discriminate.
    - discriminate.
  Qed.

  (* a timestamped aggregate the new outcome holds for a (stream, median) pair is either the previous outcome's (kept because
     this round's observed-at time is not later, or because aggregation was impossible) or fresh: then its value and its
     observed-at time each lie between two values / times that correct observers of this round reported *)
  Theorem outcome_tsv_median_in_honest_range cf seq prev (taos : list (option observation * bool)) next sid t d :
    1 < seq -> outcome_step h cf seq prev (map fst taos) = Ok next ->
    o_aggs next !! (sid, 1) = Some (STsv t (SDec d)) ->
    honest_tsv (accepted_vals taos sid) ->
    (fpres (accepted_vals taos sid) < hpres (accepted_vals taos sid))%nat ->
    o_aggs prev !! (sid, 1) = Some (STsv t (SDec d)) \/
    exists tl th dl dh t1 d1 t2 d2,
      In (Some (STsv tl d1), true) (accepted_vals taos sid) /\ In (Some (STsv th d2), true) (accepted_vals taos sid) /\ tl <= t <= th /\
      In (Some (STsv t1 (SDec dl)), true) (accepted_vals taos sid) /\ In (Some (STsv t2 (SDec dh)), true) (accepted_vals taos sid) /\
      dle dl d /\ dle d dh.
  Proof.
    intros Hseq H Hl Hh Hmaj. pose proof (step_aggregate cf seq prev taos next (sid, 1) _ Hseq H Hl) as Hav.
    unfold agg_value, agg_fun in Hav. cbn [Z.eqb Pos.eqb] in Hav. rewrite <- accepted_vals_fst in Hav.
    destruct (median_agg (map fst (accepted_vals taos sid)) (c_f cf)) as [r| |] eqn:Em.
    - destruct (tsv_median_in_honest_range _ _ _ Hh Hmaj Em) as (t' & d' & tl & th & dl & dh & t1 & d1 & t2 & d2 & -> & H1 & H2 & H3 & H4 & H5 & H6 & H7).
      destruct (o_aggs prev !! (sid, 1)) as [[?|? ? ?|pt pi]|] eqn:Ep.
      + inversion Hav; subst. right. exists tl, th, dl, dh, t1, d1, t2, d2. auto 10.
      + inversion Hav; subst. right. exists tl, th, dl, dh, t1, d1, t2, d2. auto 10.
      + destruct (t' <=? pt).
        * inversion Hav; subst. left. reflexivity.
        * inversion Hav; subst. right. exists tl, th, dl, dh, t1, d1, t2, d2. auto 10.
      + inversion Hav; subst. right. exists tl, th, dl, dh, t1, d1, t2, d2. auto 10.
    - destruct (o_aggs prev !! (sid, 1)) as [[?|? ? ?|pt pi]|] eqn:Ep; try discriminate. inversion Hav; subst. left. reflexivity.
    - discriminate.
  Qed.
End AggRange.
