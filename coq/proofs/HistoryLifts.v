(* HistoryLifts.v — the one-step laws of C05 and C18 lifted to arbitrary histories: any number of linked successful
   rounds (an erroring round commits nothing and simply does not appear), arbitrary observations in every round. *)
From stdpp Require Import gmap.
From DS Require Import Base Decimal StreamValue Sort Aggregators RepoConstants Outcome.
From DS Require Import OutcomeProofs StepTheorems HistoryProofs.
From Coq Require Import Lia.
Open Scope Z_scope.

Section Lifts.
  Context (h : Z -> chandef -> list Z).

  Definition known_stage (s : stage) : Prop := s = Staging \/ s = Production \/ s = Retired.
  Lemma stage_le_trans a b c : stage_le a b -> stage_le b c -> stage_le a c.
  Proof. destruct a, b, c; simpl; tauto. Qed.
  Lemma stage_le_known a b : known_stage a -> stage_le a b -> known_stage b.
  Proof. unfold known_stage. destruct a, b; simpl; intuition congruence. Qed.
  Lemma stage_le_refl a : known_stage a -> stage_le a a.
  Proof. intros [-> | [-> | ->]]; exact I. Qed.

  (* C05 over a history: the stage at the end of ANY later round is at or beyond the stage at the start *)
  Theorem stage_monotone_history cf (es : list event) (e0 : event) :
    Forall (valid_event h cf) (e0 :: es) -> linked (e0 :: es) -> known_stage (o_stage (ev_prev e0)) ->
    forall e, e ∈ (e0 :: es) -> stage_le (o_stage (ev_prev e0)) (o_stage (ev_next e)) /\ known_stage (o_stage (ev_next e)).
  Proof.
    revert e0. induction es as [|e1 es IH]; intros e0 Hv Hl Hk e He.
    - apply elem_of_list_singleton in He. subst e. inversion Hv as [|? ? [Hs H0] _]; subst.
      pose proof (stage_monotone h cf _ _ _ _ Hs H0 Hk) as Hle. split; [exact Hle|exact (stage_le_known _ _ Hk Hle)].
    - inversion Hv as [|? ? [Hs H0] Hv']; subst. destruct Hl as [Hlink Hl'].
      pose proof (stage_monotone h cf _ _ _ _ Hs H0 Hk) as Hle0. pose proof (stage_le_known _ _ Hk Hle0) as Hk1.
      apply elem_of_cons in He. destruct He as [->|He]; [split; assumption|].
      rewrite Hlink in Hle0, Hk1. destruct (IH e1 Hv' Hl' Hk1 e He) as [Hle Hke].
      split; [exact (stage_le_trans _ _ _ Hle0 Hle)|exact Hke].
  Qed.

  (* once retired, every later round of the history is retired with the same channel set *)
  Theorem retired_forever cf (es : list event) (e0 : event) :
    Forall (valid_event h cf) (e0 :: es) -> linked (e0 :: es) -> o_stage (ev_prev e0) = Retired ->
    forall e, e ∈ (e0 :: es) -> o_stage (ev_next e) = Retired /\ o_defs (ev_next e) = o_defs (ev_prev e0).
  Proof.
    revert e0. induction es as [|e1 es IH]; intros e0 Hv Hl Hr e He.
    - apply elem_of_list_singleton in He. subst e. inversion Hv as [|? ? [Hs H0] _]; subst.
      destruct (retired_freezes h cf _ _ _ _ Hs H0 Hr) as (H1 & H2 & _). split; assumption.
    - inversion Hv as [|? ? [Hs H0] Hv']; subst. destruct Hl as [Hlink Hl'].
      destruct (retired_freezes h cf _ _ _ _ Hs H0 Hr) as (H1 & H2 & _).
      apply elem_of_cons in He. destruct He as [->|He]; [split; assumption|].
      rewrite Hlink in H1, H2. destruct (IH e1 Hv' Hl' H1 e He) as [Ha Hb]. split; [exact Ha|congruence].
  Qed.

  (* C18 over a history: while the (stream, aggregator) pair stays referenced and its aggregate stays a timestamped
     value, the observed-at time never decreases, whatever the observers report in between *)
  Definition tsv_time (o : outcome) (p : Z * Z) : option Z := match o_aggs o !! p with Some (STsv t _) => Some t | _ => None end.

  Theorem observed_at_nondecreasing cf (es : list event) (e0 : event) p t0 :
    Forall (valid_event h cf) (e0 :: es) -> linked (e0 :: es) ->
    tsv_time (ev_prev e0) p = Some t0 ->
    (forall e, e ∈ (e0 :: es) -> p ∈ referenced_pairs (o_defs (ev_next e)) /\ exists t, tsv_time (ev_next e) p = Some t) ->
    forall e t, e ∈ (e0 :: es) -> tsv_time (ev_next e) p = Some t -> t0 <= t.
  Proof.
    revert e0 t0. induction es as [|e1 es IH]; intros e0 t0 Hv Hl H0 Hall e t He Ht.
    - apply elem_of_list_singleton in He. subst e. inversion Hv as [|? ? [Hs Hstep] _]; subst.
      unfold tsv_time in H0. destruct (o_aggs (ev_prev e0) !! p) as [[?|? ? ?|t0' i0]|] eqn:E0; try discriminate. inversion H0; subst.
      destruct (Hall e0 ltac:(left)) as [Href _].
      destruct (tsv_never_goes_back h cf _ _ _ _ p t0 i0 Hs Hstep E0 Href) as (v & Hv1 & Hcase).
      unfold tsv_time in Ht. rewrite Hv1 in Ht.
      destruct Hcase as [->|[(t1 & i1 & -> & Hlt)|Hn]]; [inversion Ht; lia|inversion Ht; lia|destruct v; try discriminate; contradiction].
    - inversion Hv as [|? ? [Hs Hstep] Hv']; subst. destruct Hl as [Hlink Hl'].
      unfold tsv_time in H0. destruct (o_aggs (ev_prev e0) !! p) as [[?|? ? ?|t0' i0]|] eqn:E0; try discriminate. inversion H0; subst.
      destruct (Hall e0 ltac:(left)) as [Href (t1 & Ht1)].
      destruct (tsv_never_goes_back h cf _ _ _ _ p t0 i0 Hs Hstep E0 Href) as (v & Hv1 & Hcase).
      assert (Hle : t0 <= t1).
      { unfold tsv_time in Ht1. rewrite Hv1 in Ht1.
        destruct Hcase as [->|[(t2 & i2 & -> & Hlt)|Hn]]; [inversion Ht1; lia|inversion Ht1; lia|destruct v; try discriminate; contradiction]. }
      apply elem_of_cons in He. destruct He as [->|He]; [rewrite Ht1 in Ht; inversion Ht; subst; exact Hle|].
      rewrite Hlink in Ht1.
      assert (t1 <= t); [|lia]. eapply (IH e1 t1 Hv' Hl' Ht1); [|exact He|exact Ht].
      intros e' He'. apply Hall. right. exact He'.
  Qed.
End Lifts.

(* the number of channel reports of a round never exceeds the number of channels the outcome holds (which C14 caps at
   MaxOutcomeChannelDefinitionsLength = libocr's MaxReportCount) *)
Lemma length_omap_le' {A B} (f : A -> option B) (l : list A) : (length (omap f l) <= length l)%nat.
Proof. induction l as [|x l IH]; [cbn; lia|]. cbn [omap list_omap]. destruct (f x); cbn [length]; lia. Qed.
Theorem reports_count_le_channels cf seq o : (length (snd (reports_of cf seq o)) <= size (o_defs o))%nat.
Proof.
  unfold reports_of. destruct (seq <=? 1); [cbn; lia|]. cbn [snd].
  etransitivity; [apply length_omap_le'|]. unfold reportable_channels.
  rewrite (Permutation.Permutation_length (SortProofs.isort_perm Z.ltb _)).
  match goal with |- (length (filter ?p ?l) <= _)%nat => assert (Hf : (length (filter p l) <= length l)%nat) end.
  { match goal with |- (length (filter ?p ?l) <= _)%nat => generalize l; intros l0; induction l0 as [|x l0 IH]; cbn; [lia|destruct (p x); cbn; lia] end. }
  etransitivity; [exact Hf|]. rewrite map_length. pose proof (map_to_list_length (o_defs o)) as Hm. unfold size, map_size. lia.
Qed.
