(* OutcomeProofs.v — one-step facts about the LLO outcome function (used by C05, C06, C18, C03). *)
From stdpp Require Import gmap.
From DS Require Import Base Decimal StreamValue Sort Aggregators RepoConstants Outcome.
From DS Require Import SortProofs.
From Coq Require Import Lia.
Open Scope Z_scope.

(* ---------- the outcome codec's effect ---------- *)
Definition floor_s (v : Z) : Z := v / ns_per_s * ns_per_s.
Definition trunc_va (pver : Z) (v : Z) : Z := if pver =? 0 then floor_s v else v.

Lemma codec_commit_fields pver raw next :
  codec_commit pver raw = Ok next ->
  o_stage next = o_stage raw /\ o_ts next = o_ts raw /\ o_defs next = o_defs raw /\ o_aggs next = o_aggs raw /\
  (forall c, o_va next !! c = trunc_va pver <$> (o_va raw !! c)).
Proof.
  unfold codec_commit, trunc_va. destruct (pver =? 0) eqn:E.
  - destruct (max_int64 <? o_ts raw); [discriminate|].
    destruct (bool_decide _); [|discriminate]. intros H. inversion H; subst; clear H. simpl.
    repeat split; try reflexivity. intros c. rewrite lookup_fmap. reflexivity.
  - intros H. inversion H; subst. repeat split; try reflexivity. intros c. destruct (o_va next !! c); reflexivity.
Qed.

(* ---------- inversion of a successful non-initial step ---------- *)
Section Step.
  Context (h : Z -> chandef -> list Z).

  Record step_data (cf : cfg) (prev : outcome) (aos : list (option observation)) := {
    sd_rr : option (gmap Z Z);
    sd_obs : list observation;
    sd_ts : Z;
    sd_aggs : gmap (Z * Z) sval }.
  Arguments sd_rr {_ _ _}. Arguments sd_obs {_ _ _}. Arguments sd_ts {_ _ _}. Arguments sd_aggs {_ _ _}.

  Definition promoted_of (prev : outcome) (rr : option (gmap Z Z)) : bool :=
    bool_decide (o_stage prev = Staging) && match rr with Some _ => true | None => false end.
  Definition stage1_of (prev : outcome) (rr : option (gmap Z Z)) : stage :=
    if promoted_of prev rr then Production else o_stage prev.
  Definition stage2_of (f : nat) (prev : outcome) (rr : option (gmap Z Z)) (obs : list observation) : stage :=
    if bool_decide (stage1_of prev rr = Production) && (f <? retire_votes obs)%nat then Retired else stage1_of prev rr.
  Definition carried_va (cf : cfg) (prev : outcome) : gmap Z Z :=
    map_imap (fun c pva => Some (if is_reportable prev c (c_pver cf) (c_interval cf) then o_ts prev else pva)) (o_va prev).
  Definition va0_of (cf : cfg) (prev : outcome) (rr : option (gmap Z Z)) : gmap Z Z :=
    match rr with
    | Some rva => if promoted_of prev rr && negb (bool_decide (rva = ∅)) then rva else carried_va cf prev
    | None => carried_va cf prev
    end.
  Definition raw_outcome (cf : cfg) (prev : outcome) (rr : option (gmap Z Z)) (obs : list observation) (ts : Z)
             (aggs : gmap (Z * Z) sval) : outcome :=
    let f := c_f cf in
    let st2 := stage2_of f prev rr obs in
    let retired := bool_decide (st2 = Retired) in
    let defs := new_defs h f retired (o_defs prev) obs in
    let removed := if retired then [] else removed_ids f obs in
    {| o_stage := st2; o_ts := ts; o_defs := defs;
       o_va := foldr delete (va0_of cf prev rr ∪ ((fun _ => ts) <$> defs)) removed;
       o_aggs := aggs |}.

  Lemma outcome_step_inv cf seq prev aos next :
    1 < seq -> outcome_step h cf seq prev aos = Ok next ->
    exists rr obs ts aggs,
      accept_observations (c_has_pred cf) aos = Ok (rr, obs) /\ obs <> [] /\
      median_ts (map ob_ts obs) = Ok ts /\
      collect_aggs (c_f cf) prev obs (referenced_pairs (o_defs (raw_outcome cf prev rr obs ts aggs))) = Ok aggs /\
      codec_commit (c_pver cf) (raw_outcome cf prev rr obs ts aggs) = Ok next.
  Proof.
    intros Hseq H. unfold outcome_step in H.
    destruct (length aos <? 2 * c_f cf + 1)%nat; [discriminate|].
    destruct (seq <=? 1) eqn:E; [lia|].
    destruct (accept_observations (c_has_pred cf) aos) as [[rr obs]|e|s] eqn:Ea; try discriminate.
    destruct obs as [|o1 obs'] eqn:Eo; [discriminate|].
    destruct (median_ts (map ob_ts (o1 :: obs'))) as [ts|e|s] eqn:Et; try discriminate.
    match type of H with context [collect_aggs ?f ?p ?o ?ps] => destruct (collect_aggs f p o ps) as [aggs|e|s] eqn:Ec end;
      try discriminate.
    exists rr, (o1 :: obs'), ts, aggs. split; [reflexivity|]. split; [discriminate|]. split; [exact Et|].
    split; [exact Ec|exact H].
  Qed.

  Lemma outcome_step_initial cf seq prev aos next :
    seq <= 1 -> outcome_step h cf seq prev aos = Ok next ->
    o_stage next = (if c_has_pred cf then Staging else Production) /\ o_defs next = ∅ /\ o_ts next = 0 /\
    o_va next = ∅ /\ o_aggs next = ∅.
  Proof.
    intros Hseq H. unfold outcome_step in H.
    destruct (length aos <? 2 * c_f cf + 1)%nat; [discriminate|].
    destruct (seq <=? 1) eqn:E; [|lia].
    destruct (codec_commit_fields _ _ _ H) as (H1 & H2 & H3 & H4 & H5). simpl in *.
    repeat split; try assumption. apply map_eq. intros c. rewrite H5, !lookup_empty. reflexivity.
  Qed.

  (* ---------- channel definitions ---------- *)
  Lemma lookup_foldr_delete_in {V} (m : gmap Z V) l k : k ∈ l -> foldr delete m l !! k = None.
  Proof.
    induction l as [|x l IH]; intros Hin; [inversion Hin|]. simpl.
    destruct (decide (x = k)) as [->|Hne]; [apply lookup_delete|].
    rewrite lookup_delete_ne by exact Hne. apply IH. inversion Hin; subst; [congruence|assumption].
  Qed.
  Lemma lookup_foldr_delete_notin {V} (m : gmap Z V) l k : k ∉ l -> foldr delete m l !! k = m !! k.
  Proof.
    induction l as [|x l IH]; intros Hin; [reflexivity|]. simpl.
    rewrite lookup_delete_ne by (intros ->; apply Hin; left). apply IH. intros H. apply Hin. right. exact H.
  Qed.

  Lemma removed_ids_votes f obs k : k ∈ removed_ids f obs -> (f < remove_votes obs k)%nat.
  Proof. unfold removed_ids. intros H. apply elem_of_list_In in H. apply filter_In in H. destruct H as [_ H]. apply Nat.ltb_lt in H. exact H. Qed.

  Lemma apply_update_lookup f obs defs cand k :
    apply_update f obs defs cand !! k = defs !! k \/
    (k = fst cand /\ apply_update f obs defs cand !! k = Some (snd cand) /\ (f < update_votes obs (fst cand) (snd cand))%nat).
  Proof.
    destruct cand as [c d]. unfold apply_update. simpl.
    destruct (update_votes obs c d <=? f)%nat eqn:E; [left; reflexivity|]. apply Nat.leb_gt in E.
    destruct (decide (k = c)) as [->|Hne].
    - destruct (defs !! c) eqn:Ed.
      + right. rewrite lookup_insert. auto.
      + destruct (MaxOutcomeChannelDefinitionsLength <=? Z.of_nat (size defs)); [left; exact Ed|].
        right. rewrite lookup_insert. auto.
    - left. destruct (defs !! c); [rewrite lookup_insert_ne by congruence; reflexivity|].
      destruct (MaxOutcomeChannelDefinitionsLength <=? Z.of_nat (size defs)); [reflexivity|].
      rewrite lookup_insert_ne by congruence. reflexivity.
  Qed.

  Lemma fold_apply_lookup f obs cands : forall defs k,
    fold_left (apply_update f obs) cands defs !! k = defs !! k \/
    exists d, fold_left (apply_update f obs) cands defs !! k = Some d /\ (k, d) ∈ cands /\ (f < update_votes obs k d)%nat.
  Proof.
    induction cands as [|cand cands IH]; intros defs k; simpl; [left; reflexivity|].
    destruct (IH (apply_update f obs defs cand) k) as [H|(d & H1 & H2 & H3)].
    - rewrite H. destruct (apply_update_lookup f obs defs cand k) as [H'|(H1 & H2 & H3)]; [left; exact H'|].
      right. exists (snd cand). split; [exact H2|]. split; [|subst; exact H3].
      subst k. destruct cand. left.
    - right. exists d. split; [exact H1|]. split; [right; exact H2|exact H3].
  Qed.

  Lemma isort_elem {A} (less : A -> A -> bool) l x : x ∈ isort less l <-> x ∈ l.
  Proof.
    rewrite !elem_of_list_In. split; intros H.
    - apply (Permutation.Permutation_in _ (isort_perm less l)). exact H.
    - apply (Permutation.Permutation_in _ (Permutation.Permutation_sym (isort_perm less l))). exact H.
  Qed.

  Theorem new_defs_change f retired prev obs k :
    new_defs h f retired prev obs !! k <> prev !! k ->
    retired = false /\
    ((new_defs h f retired prev obs !! k = None /\ (f < remove_votes obs k)%nat) \/
     (exists d, new_defs h f retired prev obs !! k = Some d /\ (f < update_votes obs k d)%nat)).
  Proof.
    unfold new_defs. destruct retired; [congruence|]. intros Hne. split; [reflexivity|].
    set (defs1 := foldr delete prev (removed_ids f obs)) in *.
    destruct (fold_apply_lookup f obs (isort (cand_less h) (update_candidates obs)) defs1 k) as [H|(d & H1 & _ & H3)].
    - rewrite H in *. left.
      destruct (decide (k ∈ removed_ids f obs)) as [Hin|Hnin].
      + split; [apply lookup_foldr_delete_in; exact Hin|apply removed_ids_votes; exact Hin].
      + exfalso. apply Hne. apply lookup_foldr_delete_notin. exact Hnin.
    - right. exists d. auto.
  Qed.

  (* ---------- stage ---------- *)
  Lemma stage2_cases f prev rr obs :
    let s := stage2_of f prev rr obs in
    (s = o_stage prev) \/
    (o_stage prev = Staging /\ rr <> None /\ (s = Production \/ (s = Retired /\ (f < retire_votes obs)%nat))) \/
    (o_stage prev = Production /\ s = Retired /\ (f < retire_votes obs)%nat).
  Proof.
    unfold stage2_of, stage1_of, promoted_of. simpl.
    destruct (bool_decide (o_stage prev = Staging)) eqn:E1.
    - apply bool_decide_eq_true in E1. destruct rr as [va|]; simpl.
      + right. left. split; [exact E1|]. split; [discriminate|].
        destruct (f <? retire_votes obs)%nat eqn:E2; [right; split; [reflexivity|apply Nat.ltb_lt; exact E2]|left; reflexivity].
      + rewrite E1. rewrite bool_decide_eq_false_2 by discriminate. left. reflexivity.
    - simpl. destruct (bool_decide (o_stage prev = Production)) eqn:E3; simpl.
      + apply bool_decide_eq_true in E3. destruct (f <? retire_votes obs)%nat eqn:E2; [|left; reflexivity].
        right. right. split; [exact E3|]. split; [reflexivity|apply Nat.ltb_lt; exact E2].
      + left. reflexivity.
  Qed.

  Lemma stage2_retired f prev rr obs : o_stage prev = Retired -> stage2_of f prev rr obs = Retired.
  Proof. intros Hp. unfold stage2_of, stage1_of, promoted_of. rewrite Hp. destruct rr; reflexivity. Qed.
  Lemma promoted_retired prev rr : o_stage prev = Retired -> promoted_of prev rr = false.
  Proof. intros Hp. unfold promoted_of. rewrite Hp. reflexivity. Qed.

  (* ---------- aggregates ---------- *)
  Lemma collect_aggs_lookup f prev obs ps : forall m p,
    collect_aggs f prev obs ps = Ok m ->
    (m !! p = None /\ (p ∉ ps \/ agg_value f prev obs p = Ok None)) \/
    (exists v, m !! p = Some v /\ p ∈ ps /\ agg_value f prev obs p = Ok (Some v)).
  Proof.
    induction ps as [|q ps IH]; intros m p H; simpl in H.
    - inversion H; subst. left. split; [apply lookup_empty|left; apply not_elem_of_nil].
    - destruct (agg_value f prev obs q) as [[v|]|e|s] eqn:Eq;
        destruct (collect_aggs f prev obs ps) as [m'|e'|s'] eqn:Ec; try discriminate.
      + inversion H; subst; clear H. destruct (decide (p = q)) as [->|Hne].
        * right. exists v. rewrite lookup_insert. split; [reflexivity|]. split; [left|exact Eq].
        * rewrite lookup_insert_ne by congruence.
          destruct (IH m' p eq_refl) as [[H1 H2]|(v' & H1 & H2 & H3)].
          -- left. split; [exact H1|]. destruct H2 as [H2|H2]; [left|right; exact H2].
             intros Hin. apply elem_of_cons in Hin. destruct Hin; [congruence|contradiction].
          -- right. exists v'. split; [exact H1|]. split; [right; exact H2|exact H3].
      + inversion H; subst; clear H. destruct (decide (p = q)) as [->|Hne].
        * destruct (IH m q eq_refl) as [[H1 H2]|(v' & H1 & H2 & H3)]; [left; split; [exact H1|right; exact Eq]|congruence].
        * destruct (IH m p eq_refl) as [[H1 H2]|(v' & H1 & H2 & H3)].
          -- left. split; [exact H1|]. destruct H2 as [H2|H2]; [left|right; exact H2].
             intros Hin. apply elem_of_cons in Hin. destruct Hin; [congruence|contradiction].
          -- right. exists v'. split; [exact H1|]. split; [right; exact H2|exact H3].
  Qed.

  (* what agg_value can be when the previous outcome held a timestamped aggregate for the pair *)
  Lemma agg_value_tsv f prev obs sid agg t0 i0 r :
    o_aggs prev !! (sid, agg) = Some (STsv t0 i0) ->
    agg_value f prev obs (sid, agg) = Ok r ->
    (r = Some (STsv t0 i0)) \/
    (exists t1 i1, r = Some (STsv t1 i1) /\ t0 < t1) \/
    (exists v, r = Some v /\ match v with STsv _ _ => False | _ => True end).
  Proof.
    intros Hp H. unfold agg_value in H. rewrite Hp in H.
    destruct (agg_fun agg) as [fn|]; [|discriminate].
    destruct (fn (stream_obs obs sid) f) as [[[d|a b c|t1 i1]|]|e|s]; try discriminate.
    - inversion H; subst. right. right. eexists. split; [reflexivity|exact I].
    - inversion H; subst. right. right. eexists. split; [reflexivity|exact I].
    - destruct (t1 <=? t0) eqn:E; inversion H; subst; [left; reflexivity|].
      right. left. exists t1, i1. split; [reflexivity|lia].
    - inversion H; subst. left. reflexivity.
  Qed.

  Lemma agg_value_failed f prev obs sid agg fn e :
    agg_fun agg = Some fn -> fn (stream_obs obs sid) f = Err e ->
    agg_value f prev obs (sid, agg) =
      Ok (match o_aggs prev !! (sid, agg) with Some (STsv t i) => Some (STsv t i) | _ => None end).
  Proof. intros Hf He. unfold agg_value. rewrite Hf, He. reflexivity. Qed.
End Step.
