(* JsonBytesProofs.v — C17 at byte level: reading back the bytes the JSON report encoder wrote gives the JSON
   document it encoded, for any number of values, full-range integers, and texts with quotes / backslashes inside
   (the nested {"t":..,"v":".."} envelope of timestamped values). *)
From DS Require Import Base Decimal StreamValue TextForms JsonReportBytes.
From DS Require Import BaseProofs TextProofs.
From Coq Require Import Lia.
Open Scope Z_scope.

Lemma span_num v rest : 0 <= v -> match rest with [] => True | x :: _ => is_digit x = false end ->
  span is_digit (nat_string v ++ rest) = (nat_string v, rest) /\ nat_string v <> [] /\ digits_val (nat_string v) = v.
Proof.
  intros Hv Hr. destruct (nat_string_spec v Hv) as (Hne & Hd & Hval).
  split; [apply span_app; [exact Hd|exact Hr]|]. split; assumption.
Qed.

Lemma parse_tt_head_tt t v rest : 0 <= t -> printable v -> parse_tt_head (json_tt t v ++ rest) = Some (t, v, rest).
Proof.
  intros Ht Hp. unfold json_tt, parse_tt_head. rewrite <- !app_assoc. rewrite is_prefix_complete.
  unfold int_string. replace (t <? 0) with false by lia.
  destruct (span_num t (s_j2 ++ json_esc v ++ s_j3 ++ rest) Ht eq_refl) as (Hs & Hn & Hv). rewrite Hs.
  destruct (nat_string t) as [|c0 r0] eqn:En; [congruence|]. rewrite is_prefix_complete.
  change (s_j3 ++ rest) with (34 :: 125 :: rest). rewrite (json_unesc_esc v (125 :: rest) Hp). rewrite Hv. reflexivity.
Qed.

Definition val_ok (e : Z * bytes) : Prop := 0 <= fst e /\ printable (snd e).

Lemma json_tt_head t v tl : exists r, json_tt t v ++ tl = 123 :: r.
Proof. unfold json_tt. rewrite <- !app_assoc. eexists. reflexivity. Qed.

Lemma parse_values_join vs : vs <> [] -> Forall val_ok vs -> forall fuel rest, (length vs <= fuel)%nat ->
  match rest with 44 :: _ => False | _ => True end ->
  parse_values fuel (join_values vs ++ rest) = Some (vs, rest).
Proof.
  induction vs as [|[t v] vs IH]; intros Hne Hok fuel rest Hf Hr; [congruence|].
  inversion Hok as [|? ? [Ht Hp] Hok']; subst. cbn [fst snd] in *. destruct fuel as [|fuel]; [simpl in Hf; lia|].
  destruct vs as [|e' vs'].
  - cbn [join_values fst snd parse_values]. rewrite (parse_tt_head_tt t v rest Ht Hp).
    destruct rest as [|x rest']; [reflexivity|]. destruct (x =? 44) eqn:E; [exfalso; assert (x = 44) by lia; subst; exact Hr|].
    destruct x as [|p|p]; try reflexivity. do 6 (destruct p as [p|p|]; try reflexivity). lia.
  - change (join_values ((t, v) :: e' :: vs')) with (json_tt t v ++ 44 :: join_values (e' :: vs')).
    rewrite <- app_assoc. cbn [parse_values]. rewrite (parse_tt_head_tt t v _ Ht Hp). cbn [app].
    rewrite IH; [reflexivity|discriminate|exact Hok'|simpl in Hf |- *; lia|exact Hr].
Qed.

Lemma length_join_values vs : (length vs <= S (length (join_values vs)))%nat.
Proof.
  induction vs as [|e vs IH]; [simpl; lia|]. destruct vs as [|e' vs']; [simpl; lia|].
  change (join_values (e :: e' :: vs')) with (json_tt (fst e) (snd e) ++ 44 :: join_values (e' :: vs')).
  rewrite app_length. cbn [length] in *. lia.
Qed.

Definition jreport_ok (j : jreport) : Prop :=
  forallb is_hex_char (j_digest j) = true /\ 0 <= j_seq j /\ 0 <= j_chan j /\ 0 <= j_va j /\ 0 <= j_ts j /\ Forall val_ok (j_values j).

Theorem json_report_parse_bytes j : jreport_ok j -> json_report_parse (json_report_bytes j) = Some j.
Proof.
  intros (Hdg & Hsq & Hch & Hva & Hts & Hvals). unfold json_report_parse, json_report_bytes.
  rewrite is_prefix_complete.
  rewrite (span_app is_hex_char (j_digest j) _ Hdg) by reflexivity. rewrite is_prefix_complete.
  match goal with |- context [span is_digit (nat_string (j_seq j) ++ ?rest)] => destruct (span_num (j_seq j) rest Hsq eq_refl) as (Hs1 & Hn1 & Hv1) end.
  rewrite Hs1. destruct (nat_string (j_seq j)) as [|c1 q1] eqn:E1; [congruence|]. rewrite is_prefix_complete.
  match goal with |- context [span is_digit (nat_string (j_chan j) ++ ?rest)] => destruct (span_num (j_chan j) rest Hch eq_refl) as (Hs2 & Hn2 & Hv2) end.
  rewrite Hs2. destruct (nat_string (j_chan j)) as [|c2 q2] eqn:E2; [congruence|]. rewrite is_prefix_complete.
  match goal with |- context [span is_digit (nat_string (j_va j) ++ ?rest)] => destruct (span_num (j_va j) rest Hva eq_refl) as (Hs3 & Hn3 & Hv3) end.
  rewrite Hs3. destruct (nat_string (j_va j)) as [|c3 q3] eqn:E3; [congruence|]. rewrite is_prefix_complete.
  match goal with |- context [span is_digit (nat_string (j_ts j) ++ ?rest)] => destruct (span_num (j_ts j) rest Hts eq_refl) as (Hs4 & Hn4 & Hv4) end.
  rewrite Hs4. destruct (nat_string (j_ts j)) as [|c4 q4] eqn:E4; [congruence|]. rewrite is_prefix_complete.
  set (tail := s_k7 ++ (if j_specimen j then s_true else s_false)).
  assert (Hfin : forall vs, match is_prefix s_k7 tail with
            | Some r13 =>
                if bytes_eqb r13 s_true
                then Some {| j_digest := j_digest j; j_seq := digits_val (c1 :: q1); j_chan := digits_val (c2 :: q2);
                             j_va := digits_val (c3 :: q3); j_ts := digits_val (c4 :: q4); j_values := vs; j_specimen := true |}
                else if bytes_eqb r13 s_false
                     then Some {| j_digest := j_digest j; j_seq := digits_val (c1 :: q1); j_chan := digits_val (c2 :: q2);
                                  j_va := digits_val (c3 :: q3); j_ts := digits_val (c4 :: q4); j_values := vs; j_specimen := false |}
                     else None
            | None => None end =
            Some {| j_digest := j_digest j; j_seq := j_seq j; j_chan := j_chan j; j_va := j_va j; j_ts := j_ts j; j_values := vs;
                    j_specimen := j_specimen j |}).
  { intros vs. subst tail. rewrite is_prefix_complete. rewrite Hv1, Hv2, Hv3, Hv4. destruct (j_specimen j); reflexivity. }
  destruct (j_values j) as [|e vs] eqn:Ev.
  - cbn [join_values app]. fold tail. subst tail. rewrite is_prefix_complete. fold (s_k7 ++ (if j_specimen j then s_true else s_false)).
    set (tail := s_k7 ++ (if j_specimen j then s_true else s_false)) in *. rewrite (Hfin []). destruct j; cbn in *; subst; reflexivity.
  - fold tail.
    assert (Hnone : is_prefix s_k7 (join_values (e :: vs) ++ tail) = None).
    { destruct vs as [|e' vs']; [cbn [join_values]|change (join_values (e :: e' :: vs')) with (json_tt (fst e) (snd e) ++ 44 :: join_values (e' :: vs')); rewrite <- app_assoc];
        destruct (json_tt_head (fst e) (snd e) (match vs with _ => _ end)) as (r & ->) || idtac.
      all: match goal with |- is_prefix s_k7 (json_tt ?t ?v ++ ?tl) = None => destruct (json_tt_head t v tl) as (r & ->); reflexivity end. }
    rewrite Hnone. rewrite parse_values_join; [|discriminate|rewrite <- Ev in Hvals; rewrite Ev in Hvals; exact Hvals| |subst tail; exact I].
    2:{ rewrite app_length. pose proof (length_join_values (e :: vs)). cbn [length] in *. lia. }
    rewrite (Hfin (e :: vs)). destruct j; cbn in *; subst; reflexivity.
Qed.

(* ---------- composed with the struct-level codec: Encode to bytes, Decode from bytes ---------- *)
Lemma hex_digit_char n : 0 <= n < 16 -> is_hex_char (hex_digit n) = true.
Proof. intros H. unfold hex_digit, is_hex_char, is_digit. destruct (n <? 10) eqn:E; lia. Qed.
Lemma hex_encode_chars bs : Forall (fun b => 0 <= b < 256) bs -> forallb is_hex_char (hex_encode bs) = true.
Proof.
  induction 1 as [|b bs Hb _ IH]; [reflexivity|]. cbn [hex_encode forallb].
  rewrite hex_digit_char by (split; [apply Z.div_pos; lia|apply Z.div_lt_upper_bound; lia]).
  rewrite hex_digit_char by (apply Z.mod_pos_bound; lia). exact IH.
Qed.
Lemma typed_all_ok vs tv : typed_all vs = Ok tv -> Forall val_ok tv.
Proof.
  revert tv. induction vs as [|[v|] vs IH]; intros tv H; cbn [typed_all] in H; [inversion H; constructor| |discriminate].
  destruct (typed_all vs) as [rest| |] eqn:E; try discriminate. cbn [bind] in H. inversion H; subst.
  constructor; [|apply IH; reflexivity]. split; cbn [fst snd]; [pose proof (sv_type_range v); lia|apply sval_text_printable].
Qed.

Theorem json_report_bytes_roundtrip r :
  length (f_digest r) = 32%nat -> Forall (fun b => 0 <= b < 256) (f_digest r) -> f_seq r <> 0 -> all_present (f_values r) ->
  0 <= f_seq r -> 0 <= f_chan r -> 0 <= f_va r -> 0 <= f_ts r ->
  exists j r', json_encode r = Ok j /\ json_report_parse (json_report_bytes j) = Some j /\
               json_decode j = Some (Ok r') /\ freport_equiv r r' = true.
Proof.
  intros Hl Hb Hseq Hv H1 H2 H3 H4. destruct (json_report_roundtrip r Hl Hb Hseq Hv) as (j & r' & He & Hd & Heq).
  exists j, r'. split; [exact He|]. split; [|split; assumption].
  apply json_report_parse_bytes. unfold json_encode in He.
  destruct (typed_all (f_values r)) as [tv| |] eqn:Et; try discriminate. cbn [bind] in He. inversion He; subst. clear He.
  unfold jreport_ok. cbn [j_digest j_seq j_chan j_va j_ts j_values].
  split; [apply hex_encode_chars; exact Hb|]. repeat (split; [assumption|]). eapply typed_all_ok. exact Et.
Qed.

(* ---------- the report embedded in a longer text: the reader returns exactly what follows it ---------- *)
Theorem json_report_parse_rest_bytes j rest : jreport_ok j -> json_report_parse_rest (json_report_bytes j ++ rest) = Some (j, rest).
Proof.
  intros (Hdg & Hsq & Hch & Hva & Hts & Hvals). unfold json_report_parse_rest, json_report_bytes.
  rewrite <- !app_assoc.
  rewrite is_prefix_complete.
  rewrite (span_app is_hex_char (j_digest j) _ Hdg) by reflexivity. rewrite is_prefix_complete.
  match goal with |- context [span is_digit (nat_string (j_seq j) ++ ?r)] => destruct (span_num (j_seq j) r Hsq eq_refl) as (Hs1 & Hn1 & Hv1) end.
  rewrite Hs1. destruct (nat_string (j_seq j)) as [|c1 q1] eqn:E1; [congruence|]. rewrite is_prefix_complete.
  match goal with |- context [span is_digit (nat_string (j_chan j) ++ ?r)] => destruct (span_num (j_chan j) r Hch eq_refl) as (Hs2 & Hn2 & Hv2) end.
  rewrite Hs2. destruct (nat_string (j_chan j)) as [|c2 q2] eqn:E2; [congruence|]. rewrite is_prefix_complete.
  match goal with |- context [span is_digit (nat_string (j_va j) ++ ?r)] => destruct (span_num (j_va j) r Hva eq_refl) as (Hs3 & Hn3 & Hv3) end.
  rewrite Hs3. destruct (nat_string (j_va j)) as [|c3 q3] eqn:E3; [congruence|]. rewrite is_prefix_complete.
  match goal with |- context [span is_digit (nat_string (j_ts j) ++ ?r)] => destruct (span_num (j_ts j) r Hts eq_refl) as (Hs4 & Hn4 & Hv4) end.
  rewrite Hs4. destruct (nat_string (j_ts j)) as [|c4 q4] eqn:E4; [congruence|]. rewrite is_prefix_complete.
  set (tail := s_k7 ++ (if j_specimen j then s_true else s_false) ++ rest).
  assert (Hfin : forall vs, match is_prefix s_k7 tail with
            | Some r13 =>
                match is_prefix s_true r13 with
                | Some rest0 => Some ({| j_digest := j_digest j; j_seq := digits_val (c1 :: q1); j_chan := digits_val (c2 :: q2);
                             j_va := digits_val (c3 :: q3); j_ts := digits_val (c4 :: q4); j_values := vs; j_specimen := true |}, rest0)
                | None => match is_prefix s_false r13 with
                          | Some rest0 => Some ({| j_digest := j_digest j; j_seq := digits_val (c1 :: q1); j_chan := digits_val (c2 :: q2);
                                  j_va := digits_val (c3 :: q3); j_ts := digits_val (c4 :: q4); j_values := vs; j_specimen := false |}, rest0)
                          | None => None end
                end
            | None => None end =
            Some ({| j_digest := j_digest j; j_seq := j_seq j; j_chan := j_chan j; j_va := j_va j; j_ts := j_ts j; j_values := vs;
                    j_specimen := j_specimen j |}, rest)).
  { intros vs. subst tail. rewrite is_prefix_complete. rewrite Hv1, Hv2, Hv3, Hv4. destruct (j_specimen j).
    - rewrite is_prefix_complete. reflexivity.
    - change (is_prefix s_true (s_false ++ rest)) with (@None bytes). rewrite is_prefix_complete. reflexivity. }
  destruct (j_values j) as [|e vs] eqn:Ev.
  - cbn [join_values app]. fold tail. replace (is_prefix s_k7 tail) with (Some ((if j_specimen j then s_true else s_false) ++ rest)) at 1
      by (subst tail; rewrite is_prefix_complete; reflexivity).
    rewrite (Hfin []). destruct j; cbn in *; subst; reflexivity.
  - fold tail.
    assert (Hnone : is_prefix s_k7 (join_values (e :: vs) ++ tail) = None).
    { destruct vs as [|e' vs']; [cbn [join_values]|change (join_values (e :: e' :: vs')) with (json_tt (fst e) (snd e) ++ 44 :: join_values (e' :: vs')); rewrite <- app_assoc].
      all: match goal with |- is_prefix s_k7 (json_tt ?t ?v ++ ?tl) = None => destruct (json_tt_head t v tl) as (r & ->); reflexivity end. }
    rewrite Hnone. rewrite parse_values_join; [|discriminate|exact Hvals| |subst tail; exact I].
    2:{ rewrite app_length. pose proof (length_join_values (e :: vs)). cbn [length] in *. lia. }
    rewrite (Hfin (e :: vs)). destruct j; cbn in *; subst; reflexivity.
Qed.
