(* MercuryWire.v — mercury/v1..v4/*.pb.go: proto.Unmarshal of the MercuryObservationProto messages at byte level
   (proto3 scalars: last occurrence wins, wrong wire type = unknown field, bool = varint <> 0, uint32 = truncation,
   int64 = two's complement of the varint; v1: repeated BlockProto). *)
From DS Require Import Base Wire Sort MercuryAgg Config MercuryReport.
Open Scope Z_scope.

Definition i64 (v : Z) : Z := if v <? 2 ^ 63 then v else v - 2 ^ 64.
Definition u32w (v : Z) : Z := v mod 2 ^ 32.
Definition vbool (v : Z) : bool := negb (v =? 0).

(* v2, v3, v4 share the record; fields a version does not have read as zero values *)
Definition merc_decode234 (ver : Z) (bs : bytes) : option mobs :=
  match parse_fields bs with
  | None => None
  | Some fs =>
      let lv k := last_varint k fs in let lb k := last_bytes k fs in
      Some (if ver =? 2 then
              {| mo_ts := u32w (lv 1); mo_prices_valid := vbool (lv 3); mo_bm := lb 2; mo_bid := []; mo_ask := [];
                 mo_mfts_valid := vbool (lv 5); mo_mfts := i64 (lv 4);
                 mo_link_valid := vbool (lv 7); mo_link := lb 6; mo_native_valid := vbool (lv 9); mo_native := lb 8;
                 mo_status_valid := false; mo_status := 0 |}
            else if ver =? 3 then
              {| mo_ts := u32w (lv 1); mo_prices_valid := vbool (lv 5); mo_bm := lb 2; mo_bid := lb 3; mo_ask := lb 4;
                 mo_mfts_valid := vbool (lv 7); mo_mfts := i64 (lv 6);
                 mo_link_valid := vbool (lv 9); mo_link := lb 8; mo_native_valid := vbool (lv 11); mo_native := lb 10;
                 mo_status_valid := false; mo_status := 0 |}
            else
              {| mo_ts := u32w (lv 1); mo_prices_valid := vbool (lv 5); mo_bm := lb 2; mo_bid := []; mo_ask := [];
                 mo_mfts_valid := vbool (lv 7); mo_mfts := i64 (lv 6);
                 mo_link_valid := vbool (lv 9); mo_link := lb 8; mo_native_valid := vbool (lv 11); mo_native := lb 10;
                 mo_status_valid := vbool (lv 13); mo_status := u32w (lv 12) |})
  end.

Definition merc_block (b : bytes) : option block :=
  match parse_fields b with
  | Some fs => Some {| bnum := i64 (last_varint 1 fs); bhash := last_bytes 2 fs; bts := last_varint 3 fs |}
  | None => None
  end.
Fixpoint all_some {A} (l : list (option A)) : option (list A) :=
  match l with
  | [] => Some []
  | Some x :: r => match all_some r with Some xs => Some (x :: xs) | None => None end
  | None :: _ => None
  end.
Definition merc_decode1 (bs : bytes) : option mobs1 :=
  match parse_fields bs with
  | None => None
  | Some fs =>
      let lv k := last_varint k fs in let lb k := last_bytes k fs in
      match all_some (map merc_block (all_bytes 12 fs)) with
      | None => None
      | Some blocks =>
          Some {| m1_ts := u32w (lv 1); m1_prices_valid := vbool (lv 5); m1_bm := lb 2; m1_bid := lb 3; m1_ask := lb 4;
                  m1_blocks := blocks; m1_cur_valid := vbool (lv 9);
                  m1_cur := {| bnum := i64 (lv 6); bhash := lb 7; bts := lv 8 |};
                  m1_mfb_valid := vbool (lv 11); m1_mfb := i64 (lv 10) |}
      end
  end.
