(* MercuryAgg.v — mercury/aggregate_functions.go, mercury/v1/aggregate_functions.go,
   mercury/v4/aggregate_functions.go.  big.Int / int64 / uint32 values are Z; a field is a pair
   (value, valid flag).  Go map iteration is modelled by an explicit key order `ks` (any
   permutation of the distinct keys); the `_canon` versions use first-occurrence order. *)
From DS Require Export Base Sort.

Definition field := (Z * bool)%type.
Definition valid_vals (xs : list field) : list Z := map fst (filter snd xs).

Definition nth_median (l : list Z) : res Z :=
  match nth_error (isort Z.ltb l) (median_idx l) with Some v => Ok v | None => Panic 10 end.

(* GetConsensusTimestamp: median of all timestamps (panics on an empty slice) *)
Definition consensus_timestamp (ts : list Z) : res Z := nth_median ts.

(* GetConsensusBenchmarkPrice / Bid / Ask *)
Definition consensus_price (xs : list field) (f : nat) : res Z :=
  let v := valid_vals xs in
  if (length v <? f + 1)%nat then Err ETooFew else nth_median v.

(* GetConsensusLinkFee / NativeFee: valid and non-negative *)
Definition consensus_fee (xs : list field) (f : nat) : res Z :=
  let v := filter (fun x => 0 <=? x) (valid_vals xs) in
  if (length v <? f + 1)%nat then Err ETooFew else nth_median v.

Definition count_Z (x : Z) (l : list Z) : nat := length (filter (Z.eqb x) l).
Fixpoint nodup_Z (l : list Z) : list Z :=
  match l with [] => [] | x :: r => if existsb (Z.eqb x) r then nodup_Z r else x :: nodup_Z r end.

(* GetConsensusMaxFinalizedTimestamp: highest value with more than f votes *)
Definition max_finalized_ts_order (ks : list Z) (xs : list field) (f : nat) : res Z :=
  let v := valid_vals xs in
  if (length v <? f + 1)%nat then Err ETooFew
  else let m := fold_left (fun acc ts => if (f <? count_Z ts v)%nat && (acc <? ts) then ts else acc) ks (-2) in
       if m <? -1 then Err ETooFew else Ok m.
Definition max_finalized_ts (xs : list field) (f : nat) : res Z :=
  max_finalized_ts_order (nodup_Z (valid_vals xs)) xs f.

(* v1 GetConsensusMaxFinalizedBlockNum: mode, at least f+1 votes, ties to the lower number *)
Definition max_count (keys v : list Z) : nat := fold_left (fun acc k => Nat.max acc (count_Z k v)) keys O.
Definition max_finalized_block_order (ks : list Z) (xs : list field) (f : nat) : res Z :=
  let v := valid_vals xs in
  if (length v <? f + 1)%nat then Err ETooFew
  else let mc := max_count v v in
       let nums := filter (fun k => (count_Z k v =? mc)%nat) ks in
       if (mc <? f + 1)%nat then Err ETooFew
       else match isort Z.ltb nums with n :: _ => Ok n | [] => Panic 11 end.
Definition max_finalized_block (xs : list field) (f : nat) : res Z :=
  max_finalized_block_order (nodup_Z (valid_vals xs)) xs f.

(* v4 GetConsensusMarketStatus: most common valid status, ties to the smaller value, >= f+1 *)
Definition status_step (v : list Z) (acc : Z * nat) (s : Z) : Z * nat :=
  let c := count_Z s v in
  if (snd acc <? c)%nat then (s, c)
  else if (c =? snd acc)%nat then (if s <? fst acc then (s, snd acc) else acc) else acc.
Definition market_status_order (ks : list Z) (xs : list field) (f : nat) : res Z :=
  let v := valid_vals xs in
  let '(s, c) := fold_left (status_step v) ks (0, O) in
  if (c <? f + 1)%nat then Err ETooFew else Ok s.
Definition market_status (xs : list field) (f : nat) : res Z :=
  market_status_order (nodup_Z (valid_vals xs)) xs f.

(* ---- v1 GetConsensusLatestBlock ---- *)
Record block := { bnum : Z; bhash : bytes; bts : Z }.
Definition block_eqb (a b : block) : bool := (bnum a =? bnum b) && bytes_eqb (bhash a) (bhash b) && (bts a =? bts b).
Fixpoint bytes_ltb0 (a b : bytes) : bool :=
  match a, b with
  | [], [] => false | [], _ :: _ => true | _ :: _, [] => false
  | x :: a', y :: b' => if x <? y then true else if y <? x then false else bytes_ltb0 a' b'
  end.
(* v1.Block.Less *)
Definition block_less (b b2 : block) : bool :=
  if (bnum b =? bnum b2) && (bts b =? bts b2) then bytes_ltb0 (bhash b2) (bhash b)
  else if bnum b =? bnum b2 then bts b <? bts b2
  else bnum b <? bnum b2.
(* one observation: its LatestBlocks, or (when empty) the deprecated current-block triple if all three valid *)
Definition obs_blocks (o : list block * option block) : list block :=
  match fst o with [] => match snd o with Some b => [b] | None => [] end | l => l end.
Definition count_block (b : block) (l : list block) : nat := length (filter (block_eqb b) l).
Fixpoint nodup_block (l : list block) : list block :=
  match l with [] => [] | x :: r => if existsb (block_eqb x) r then nodup_block r else x :: nodup_block r end.

(* nums_desc: the distinct block numbers, highest first (unique whatever the map order);
   usable_order: any order of the distinct blocks of a grouping (map order) *)
Definition best_block (usable : list block) : option block :=
  (* sort.Slice(usable, less(j,i)); usable[0] *)
  match isort (fun a b => block_less b a) usable with b :: _ => Some b | [] => None end.
Fixpoint latest_block_groups (nums : list Z) (all : list block) (f : nat) : res block :=
  match nums with
  | [] => Err ETooFew
  | n :: rest =>
      let grp := filter (fun b => bnum b =? n) all in
      let mc := fold_left (fun acc b => Nat.max acc (count_block b grp)) grp O in
      if (f + 1 <=? mc)%nat then
        match best_block (filter (fun b => (count_block b grp =? mc)%nat) (nodup_block grp)) with
        | Some b => Ok b
        | None => Panic 12
        end
      else latest_block_groups rest all f
  end.
Definition latest_block (obs : list (list block * option block)) (f : nat) : res block :=
  let all := flat_map obs_blocks obs in
  let nums := isort (fun a b => b <? a) (nodup_Z (map bnum all)) in
  latest_block_groups nums all f.
