(* CasesText.v — evaluation of the `textforms` projection (C17): stream value text forms, typed text envelopes,
   JSON report codec (struct level), Pack/Unpack (implementation only). *)
From DS Require Import Base Decimal StreamValue TextForms JsonReportBytes JsonPackBytes.

Inductive text_case :=
| TText (v : sval) (text : res bytes) (back : res sval)       (* MarshalText, then UnmarshalTypedTextStreamValue(Type, text) *)
| TParse (t : Z) (s : bytes) (out : res sval)                 (* UnmarshalTypedTextStreamValue on arbitrary text *)
| TReport (r : freport) (enc : res jreport) (raw : option bytes) (dec : res freport)   (* Encode (as the JSON struct, and its exact bytes), Decode(Encode) *)
| TDecode (j : jreport) (out : res freport)                   (* Decode of a JSON document built from j *)
| TPack (t : ptuple) (packed : res jpack) (unpacked : res ptuple)    (* Pack (viewed as the JSON struct), Unpack(Pack) *)
| TPackBytes (t : ptuple) (sigs_nil : bool) (raw : bytes)            (* the exact bytes Pack returned ... *)
             (ud : res (bytes * Z * freport * list (bytes * Z))).   (* ... and UnpackDecode of them *)

Definition freport_eqb (a b : freport) : bool :=
  bytes_eqb (f_digest a) (f_digest b) && (f_seq a =? f_seq b) && (f_chan a =? f_chan b) && (f_va a =? f_va b) &&
  (f_ts a =? f_ts b) && Bool.eqb (f_specimen a) (f_specimen b) && list_all2 (option_eqb sval_eqb) (f_values a) (f_values b).
Definition jreport_eqb (a b : jreport) : bool :=
  bytes_eqb (j_digest a) (j_digest b) && (j_seq a =? j_seq b) && (j_chan a =? j_chan b) && (j_va a =? j_va b) &&
  (j_ts a =? j_ts b) && Bool.eqb (j_specimen a) (j_specimen b) &&
  list_all2 (fun x y => (fst x =? fst y) && bytes_eqb (snd x) (snd y)) (j_values a) (j_values b).

Definition sigs_eqb (a b : list (bytes * Z)) : bool :=
  list_all2 (fun x y => bytes_eqb (fst x) (fst y) && (snd x =? snd y)) a b.
Definition ptuple_eqb (a b : ptuple) : bool :=
  bytes_eqb (pt_digest a) (pt_digest b) && (pt_seq a =? pt_seq b) && bytes_eqb (pt_report a) (pt_report b) && sigs_eqb (pt_sigs a) (pt_sigs b).
Definition jpack_eqb (a b : jpack) : bool :=
  bytes_eqb (jp_digest a) (jp_digest b) && (jp_seq a =? jp_seq b) && bytes_eqb (jp_report a) (jp_report b) && sigs_eqb (jp_sigs a) (jp_sigs b).

Definition res_agree {A} (eqb : A -> A -> bool) (m i : res A) : bool :=
  match m, i with Ok a, Ok b => eqb a b | Err _, Err _ => true | Panic _, Panic _ => true | _, _ => false end.
(* None on the model side: input outside the modelled syntax — not compared *)
Definition ores_agree {A} (eqb : A -> A -> bool) (m : option (res A)) (i : res A) : bool :=
  match m with Some r => res_agree eqb r i | None => true end.

Definition text_agrees (c : text_case) : bool :=
  match c with
  | TText v text back =>
      res_agree bytes_eqb (Ok (sval_text v)) text &&
      match text with Ok s => ores_agree sval_eqb (typed_parse (S (length s)) (sv_type v) s) back | _ => true end
  | TParse t s out => ores_agree sval_eqb (typed_parse (S (length s)) t s) out
  | TReport r enc raw dec =>
      res_agree jreport_eqb (json_encode r) enc &&
      match enc with Ok j => ores_agree freport_eqb (json_decode j) dec | _ => true end &&
      (* byte level: the model writes exactly the bytes json.Marshal wrote, and reads them back *)
      match json_encode r, raw with
      | Ok j, Some bs => bytes_eqb (json_report_bytes j) bs &&
                         match json_report_parse bs with Some j' => jreport_eqb j j' | None => false end
      | _, _ => true
      end
  | TDecode j out => ores_agree freport_eqb (json_decode j) out
  | TPack t packed unpacked =>
      res_agree jpack_eqb (Ok (pack_model t)) packed &&
      match packed with Ok j => res_agree ptuple_eqb (unpack_model j) unpacked | _ => true end
  | TPackBytes t sn raw ud =>
      bytes_eqb (json_pack_bytes t sn) raw &&
      forallb (fun sg => match b64_decode (b64_encode (fst sg)) with Some b => bytes_eqb b (fst sg) | None => false end) (pt_sigs t) &&
      (* the reader model recovers the tuple from the real bytes (when the report has the codec's own shape) *)
      match json_report_parse (pt_report t) with
      | Some _ => match json_unpack_bytes raw with
                  | Some (t', sn') =>
                      ptuple_eqb t t' && match pt_sigs t with [] => Bool.eqb sn sn' | _ => true end &&
                      (* UnpackDecode = Unpack, then Decode of the report *)
                      match json_report_parse (pt_report t') with
                      | Some j => match json_decode j, ud with
                                  | Some (Ok r'), Ok (d, sq, r, sg) =>
                                      bytes_eqb d (pt_digest t') && (sq =? pt_seq t') && freport_eqb r r' && sigs_eqb sg (pt_sigs t')
                                  | Some (Err _), Err _ => true
                                  | Some (Panic _), Panic _ => true
                                  | None, _ => true
                                  | _, _ => false
                                  end
                      | None => true
                      end
                  | None => false
                  end
      | None => true
      end
  end.
Definition text_skipped (c : text_case) : bool :=
  match c with
  | TText v (Ok s) _ => match typed_parse (S (length s)) (sv_type v) s with None => true | _ => false end
  | TParse t s _ => match typed_parse (S (length s)) t s with None => true | _ => false end
  | TReport _ (Ok j) _ _ | TDecode j _ => match json_decode j with None => true | _ => false end
  | _ => false
  end.

(* C17 on the implementation's results *)
Definition c17_case (c : text_case) : bool :=
  match c with
  | TText v text back =>
      match text, back with Ok _, Ok v' => sval_equiv v v' | _, _ => false end
  | TReport r enc _ dec =>
      if forallb (fun v => match v with Some _ => true | None => false end) (f_values r) && negb (f_seq r =? 0) then
        match enc, dec with Ok _, Ok r' => freport_equiv r r' | _, _ => false end
      else negb (is_panic enc) && negb (is_panic dec)
  | TPack t packed unpacked => match packed, unpacked with Ok _, Ok t' => ptuple_eqb t t' | _, _ => false end
  | TParse _ _ out | TDecode _ out => negb (is_panic out)
  | TPackBytes t _ _ ud =>
      match ud with
      | Ok (d, sq, _, sg) => bytes_eqb d (pt_digest t) && (sq =? pt_seq t) && sigs_eqb sg (pt_sigs t)
      | Err _ => true
      | Panic _ => false
      end
  end.

Definition text_eval (cs : list text_case) :=
  (index_where (fun c => negb (text_agrees c)) cs,
   index_where (fun c => negb (c17_case c)) cs,
   [length cs; length (filter text_skipped cs);
    length (filter (fun c => match c with TText _ _ _ => true | _ => false end) cs);
    length (filter (fun c => match c with TParse _ _ _ => true | _ => false end) cs);
    length (filter (fun c => match c with TReport _ _ _ _ => true | _ => false end) cs);
    length (filter (fun c => match c with TDecode _ _ => true | _ => false end) cs);
    length (filter (fun c => match c with TPack _ _ _ => true | _ => false end) cs);
    length (filter (fun c => match c with TPackBytes _ _ _ _ => true | _ => false end) cs)]).
