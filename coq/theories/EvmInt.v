(* EvmInt.v — model of llo/reportcodecs/evm/report_codec_common.go:
   typeRegex, EncodePackedBigInt, EncodePaddedBigInt, padWithZeroes, padWithOnes. *)
From DS Require Export Base.
From DS Require Import RepoConstants.

(* typeRegex = ^(u?int)(w1|w2|...)$ : the alternatives come from the source (gen/RepoConstants.v) *)
Definition s_uint : bytes := [117; 105; 110; 116].
Definition s_int : bytes := [105; 110; 116].

Definition find_width (rest : bytes) : option Z :=
  find (fun w => bytes_eqb (dec_digits w) rest) evm_type_widths.

(* Some (signed, width) *)
Definition parse_type (t : bytes) : option (bool * Z) :=
  match is_prefix s_uint t with
  | Some rest => option_map (fun w => (false, w)) (find_width rest)
  | None => match is_prefix s_int t with
            | Some rest => option_map (fun w => (true, w)) (find_width rest)
            | None => None
            end
  end.

(* big.Int.FillBytes(buf of length n): panics when the magnitude does not fit *)
Definition fill_bytes (n : nat) (v : Z) : res bytes :=
  if (Z.abs v) <? 256 ^ Z.of_nat n then Ok (be_bytes n (Z.abs v)) else Panic 1.

Definition encode_packed (v : Z) (t : bytes) : res bytes :=
  match parse_type t with
  | None => Err EInvalidType
  | Some (false, w) =>
      if v <? 0 then Err EOutOfRange
      else if v >=? 2 ^ w then Err EOutOfRange
      else fill_bytes (Z.to_nat (w / 8)) v
  | Some (true, w) =>
      if (v <? - 2 ^ (w - 1)) || (v >? 2 ^ (w - 1) - 1) then Err EOutOfRange
      else fill_bytes (Z.to_nat (w / 8)) (v mod 2 ^ w)
  end.

Definition pad_with (fillb : Z) (b : bytes) : bytes := repeat fillb (32 - length b) ++ b.

Definition encode_padded (v : Z) (t : bytes) : res bytes :=
  match encode_packed v t with
  | Ok b => if (32 <? length b)%nat then Err EOutOfRange
            else if v <? 0 then Ok (pad_with 255 b) else Ok (pad_with 0 b)
  | Err e => Err e
  | Panic s => Panic s
  end.

(* ---- specification side (independent of the model): Solidity integer types ---- *)
Definition type_name (signed : bool) (w : Z) : bytes :=
  (if signed then s_int else s_uint) ++ dec_digits w.
Definition solidity_widths : list Z := map (fun k => 8 * Z.of_nat k) (seq 1 32).
Definition in_range (signed : bool) (w v : Z) : Prop :=
  if signed then - 2 ^ (w - 1) <= v <= 2 ^ (w - 1) - 1 else 0 <= v < 2 ^ w.
Definition in_rangeb (signed : bool) (w v : Z) : bool :=
  if signed then (- 2 ^ (w - 1) <=? v) && (v <=? 2 ^ (w - 1) - 1) else (0 <=? v) && (v <? 2 ^ w).
