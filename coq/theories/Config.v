(* Config.v — configuration and value codecs:
   llo/offchain_config.go (after the D5 repair), llo/onchain_config_codec.go, mercury/onchain_config.go,
   mercury/value.go (EncodeValueInt192 / DecodeValueInt192), libocr bigbigendian Serialize/DeserializeSigned. *)
From DS Require Export Base Wire.

(* ---- bigbigendian: n-byte big-endian two's complement ---- *)
Definition ser_signed (n : nat) (v : Z) : res bytes :=
  let w := 8 * Z.of_nat n in
  if (- 2 ^ (w - 1) <=? v) && (v <? 2 ^ (w - 1)) then Ok (be_bytes n (v mod 2 ^ w)) else Err EOutOfRange.
Definition deser_signed (n : nat) (bs : bytes) : res Z :=
  if (length bs =? n)%nat then Ok (twos_read bs) else Err EMalformed.

(* ---- mercury/value.go ---- *)
Definition encode_int192 (v : Z) : res bytes := ser_signed 24 v.
Definition decode_int192 (bs : bytes) : res Z := deser_signed 24 bs.

(* ---- LLO offchain config (protobuf: protocolVersion = 1, defaultMinReportIntervalNanoseconds = 2) ---- *)
Record offchain_cfg := { oc_version : Z; oc_min_interval : Z }.
Definition offchain_valid (c : offchain_cfg) : bool :=
  if oc_version c =? 0 then oc_min_interval c =? 0
  else if oc_version c =? 1 then negb (oc_min_interval c =? 0)
  else false.
Definition offchain_encode (c : offchain_cfg) : bytes := f_varint 1 (oc_version c) ++ f_varint 2 (oc_min_interval c).
(* undecodable bytes yield the zero configuration without error (documented backwards-compatibility hack) *)
Definition offchain_decode (bs : bytes) : res offchain_cfg :=
  match parse_fields bs with
  | None => Ok {| oc_version := 0; oc_min_interval := 0 |}
  | Some fs =>
      let c := {| oc_version := last_varint 1 fs mod 2 ^ 32; oc_min_interval := last_varint 2 fs |} in
      if offchain_valid c then Ok c else Err EInvalid
  end.
(* the pre-repair decoder validated the zero value before assigning the fields (defect D5) *)
Definition offchain_decode_prefix (bs : bytes) : res offchain_cfg :=
  match parse_fields bs with
  | None => Ok {| oc_version := 0; oc_min_interval := 0 |}
  | Some fs => Ok {| oc_version := last_varint 1 fs mod 2 ^ 32; oc_min_interval := last_varint 2 fs |}
  end.

(* ---- LLO onchain config: 2 x 32 bytes: version (= 1), predecessor config digest (all zero = none) ---- *)
Record llo_onchain := { lo_pred : option bytes }.     (* version is always 1 *)
Definition llo_onchain_encode (c : llo_onchain) : bytes :=
  be_bytes 32 1 ++ match lo_pred c with Some d => d | None => repeat 0 32 end.
Definition llo_onchain_decode (bs : bytes) : res llo_onchain :=
  if (length bs =? 64)%nat then
    if twos_read (firstn 32 bs) =? 1 then
      let d := skipn 32 bs in
      Ok {| lo_pred := if forallb (Z.eqb 0) d then None else Some d |}
    else Err EInvalid
  else Err EMalformed.

(* ---- Mercury onchain config: 3 x 32 bytes: version (= 1), min, max (int256 words), min <= max ---- *)
Record merc_onchain := { mo_min : Z; mo_max : Z }.
Definition merc_onchain_encode (c : merc_onchain) : res bytes :=
  a <- ser_signed 32 1 ;; b <- ser_signed 32 (mo_min c) ;; d <- ser_signed 32 (mo_max c) ;; Ok (a ++ b ++ d).
Definition merc_onchain_decode (bs : bytes) : res merc_onchain :=
  if (length bs =? 96)%nat then
    if twos_read (firstn 32 bs) =? 1 then
      let mn := twos_read (firstn 32 (skipn 32 bs)) in
      let mx := twos_read (skipn 64 bs) in
      if mn <=? mx then Ok {| mo_min := mn; mo_max := mx |} else Err EInvalid
    else Err EInvalid
  else Err EMalformed.
