(* MercuryReport.v — mercury/v1..v4/mercury.go: parseAttributedObservation (from the decoded protobuf message),
   buildReportFields, validateReport, Report; mercury/validation.go, mercury/v1/validation.go.
   The ReportCodec lives outside this repository: it is represented by what the plugin uses of it — the
   timestamp / block number it extracts from the previous report, and the length of the report it builds. *)
From DS Require Export Base Sort MercuryAgg Config.
From DS Require Import RepoConstants.

Fixpoint omap {A B} (f : A -> option B) (l : list A) : list B :=
  match l with [] => [] | x :: r => match f x with Some y => y :: omap f r | None => omap f r end end.

Definition max_uint32 : Z := 2 ^ 32 - 1.
Definition max_int192 : Z := 2 ^ 191 - 1.
Definition wrap64 (x : Z) : Z := let m := x mod 2 ^ 64 in if m <? 2 ^ 63 then m else m - 2 ^ 64.

(* ---- decoded observation messages ---- *)
Record mobs := {
  mo_ts : Z;
  mo_prices_valid : bool; mo_bm : bytes; mo_bid : bytes; mo_ask : bytes;
  mo_mfts_valid : bool; mo_mfts : Z;
  mo_link_valid : bool; mo_link : bytes;
  mo_native_valid : bool; mo_native : bytes;
  mo_status_valid : bool; mo_status : Z }.

Record pao := {
  p_ts : Z; p_bm : field; p_bid : field; p_ask : field; p_mfts : field;
  p_link : field; p_native : field; p_status : field }.

Definition dec_opt (valid : bool) (b : bytes) : option field :=
  if valid then match decode_int192 b with Ok v => Some (v, true) | _ => None end else Some (0, false).

(* ver = 2, 3, 4.  None = the observation is dropped *)
Definition parse234 (ver : Z) (o : mobs) : option pao :=
  match dec_opt (mo_prices_valid o) (mo_bm o) with
  | None => None
  | Some bm =>
      let bidask :=
        if ver =? 3 then
          match dec_opt (mo_prices_valid o) (mo_bid o), dec_opt (mo_prices_valid o) (mo_ask o) with
          | Some bid, Some ask =>
              if mo_prices_valid o && ((fst bm <? fst bid) || (fst ask <? fst bm)) then None   (* bid <= mid <= ask violated *)
              else Some (bid, ask)
          | _, _ => None
          end
        else Some ((0, false), (0, false)) in
      match bidask, dec_opt (mo_link_valid o) (mo_link o), dec_opt (mo_native_valid o) (mo_native o) with
      | Some (bid, ask), Some link, Some native =>
          Some {| p_ts := mo_ts o; p_bm := bm; p_bid := bid; p_ask := ask;
                  p_mfts := (mo_mfts o, mo_mfts_valid o); p_link := link; p_native := native;
                  p_status := (mo_status o, mo_status_valid o && (ver =? 4)) |}
      | _, _, _ => None
      end
  end.

Record mcfg := { mc_f : nat; mc_min : Z; mc_max : Z; mc_window : Z; mc_maxlen : nat }.
Record fields234 := {
  rf_ts : Z; rf_valid_from : Z; rf_expires : Z; rf_bm : Z; rf_bid : Z; rf_ask : Z;
  rf_link : Z; rf_native : Z; rf_status : Z }.

Definition betweenb (v lo hi : Z) : bool := (lo <=? v) && (v <=? hi).
Definition res_or {A} (r : res A) (d : A) : A := match r with Ok v => v | _ => d end.

(* prev: None = no previous report; Some r = what ObservationTimestampFromReport returned for it.
   replen: Ok n = BuildReport returned n bytes *)
Definition report234 (ver : Z) (c : mcfg) (prev : option (res Z)) (replen : fields234 -> res nat) (obs : list mobs)
  : res (bool * option fields234) :=
  let f := mc_f c in
  let paos := omap (parse234 ver) obs in
  match paos with
  | [] => Err ETooFew
  | _ =>
      if (length paos <? f + 1)%nat then Err ETooFew else
      match consensus_timestamp (map p_ts paos) with
      | Panic s => Panic s | Err e => Err e
      | Ok ts =>
          (* (validFrom, error?) *)
          let '(vfrom, e1) :=
            match prev with
            | Some (Ok pts) => ((pts + 1) mod 2 ^ 32, pts =? max_uint32)
            | Some _ => (1, true)
            | None =>
                match max_finalized_ts (map p_mfts paos) f with
                | Ok m => if m <? 0 then (ts, false)
                          else if max_uint32 <? m + 1 then (0, true) else (m + 1, false)
                | _ => (0, true)
                end
            end in
          let bm := consensus_price (map p_bm paos) f in
          let bid := if ver =? 3 then consensus_price (map p_bid paos) f else Ok 0 in
          let ask := if ver =? 3 then consensus_price (map p_ask paos) f else Ok 0 in
          let link := res_or (consensus_fee (map p_link paos) f) 0 in
          let native := res_or (consensus_fee (map p_native paos) f) 0 in
          let e2 := max_uint32 <? ts + mc_window c in
          let status := if ver =? 4 then market_status (map p_status paos) f else Ok 0 in
          if e1 || e2 || negb (is_ok bm) || negb (is_ok bid) || negb (is_ok ask) || negb (is_ok status) then Err EInvalid
          else
            let rf := {| rf_ts := ts; rf_valid_from := vfrom; rf_expires := ts + mc_window c;
                         rf_bm := res_or bm 0; rf_bid := res_or bid 0; rf_ask := res_or ask 0;
                         rf_link := link; rf_native := native; rf_status := res_or status 0 |} in
            if ts <? vfrom then Ok (false, None)
            else if betweenb (rf_bm rf) (mc_min c) (mc_max c) &&
                    (if ver =? 3 then betweenb (rf_bid rf) (mc_min c) (rf_bm rf) && betweenb (rf_ask rf) (rf_bm rf) (mc_max c) &&
                                      betweenb (rf_bid rf) (mc_min c) (mc_max c) && betweenb (rf_ask rf) (mc_min c) (mc_max c) else true) &&
                    betweenb link 0 max_int192 && betweenb native 0 max_int192 &&
                    (vfrom <=? ts) && (ts <=? rf_expires rf)
            then match replen rf with
                 | Ok n => if (mc_maxlen c <? n)%nat then Err EOutOfRange else if (n =? 0)%nat then Err EInvalid else Ok (true, Some rf)
                 | Err e => Err e
                 | Panic s => Panic s
                 end
            else Err EInvalid
      end
  end.

(* ---- v1 ---- *)
Record mobs1 := {
  m1_ts : Z; m1_prices_valid : bool; m1_bm : bytes; m1_bid : bytes; m1_ask : bytes;
  m1_blocks : list block; m1_cur_valid : bool; m1_cur : block;
  m1_mfb_valid : bool; m1_mfb : Z }.
Record pao1 := { q_ts : Z; q_bm : field; q_bid : field; q_ask : field; q_blocks : list block * option block; q_mfb : field }.

Fixpoint has_dup_by {A} (eqb : A -> A -> bool) (l : list A) : bool :=
  match l with [] => false | x :: r => existsb (eqb x) r || has_dup_by eqb r end.

Definition parse1 (o : mobs1) : option pao1 :=
  match dec_opt (m1_prices_valid o) (m1_bm o), dec_opt (m1_prices_valid o) (m1_bid o), dec_opt (m1_prices_valid o) (m1_ask o) with
  | Some bm, Some bid, Some ask =>
      let blocks_ok :=
        match m1_blocks o with
        | [] => if m1_cur_valid o then (length (bhash (m1_cur o)) =? 32)%nat && (0 <=? bnum (m1_cur o)) else true
        | bl => (Z.of_nat (length bl) <=? MaxAllowedBlocks) &&
                negb (has_dup_by (fun a b => bnum a =? bnum b) bl) && negb (has_dup_by (fun a b => bytes_eqb (bhash a) (bhash b)) bl) &&
                forallb (fun b => (length (bhash b) =? 32)%nat && (0 <=? bnum b)) bl
        end in
      if blocks_ok then
        Some {| q_ts := m1_ts o; q_bm := bm; q_bid := bid; q_ask := ask;
                q_blocks := (m1_blocks o, if m1_cur_valid o then Some (m1_cur o) else None);
                q_mfb := (m1_mfb o, m1_mfb_valid o) |}
      else None
  | _, _, _ => None
  end.

Record fields1 := { r1_ts : Z; r1_valid_from : Z; r1_cur : block; r1_bm : Z; r1_bid : Z; r1_ask : Z }.

Definition report1 (c : mcfg) (prev : option (res Z)) (replen : fields1 -> res nat) (obs : list mobs1) : res (bool * option fields1) :=
  let f := mc_f c in
  let paos := omap parse1 obs in
  match paos with
  | [] => Err ETooFew
  | _ =>
      if (length paos <? f + 1)%nat then Err ETooFew else
      let '(vfrom, e1) :=
        match prev with
        | Some (Ok pb) => (wrap64 (pb + 1), false)
        | Some _ => (0, true)
        | None => match max_finalized_block (map q_mfb paos) f with Ok m => (wrap64 (m + 1), false) | _ => (0, true) end
        end in
      match consensus_timestamp (map q_ts paos) with
      | Panic s => Panic s | Err e => Err e
      | Ok ts =>
          let bm := consensus_price (map q_bm paos) f in
          let bid := consensus_price (map q_bid paos) f in
          let ask := consensus_price (map q_ask paos) f in
          let cur := latest_block (map q_blocks paos) f in
          if e1 || negb (is_ok bm) || negb (is_ok bid) || negb (is_ok ask) || negb (is_ok cur) then Err EInvalid
          else
            let cb := res_or cur {| bnum := 0; bhash := []; bts := 0 |} in
            let rf := {| r1_ts := ts; r1_valid_from := vfrom; r1_cur := cb; r1_bm := res_or bm 0; r1_bid := res_or bid 0; r1_ask := res_or ask 0 |} in
            if bnum cb <? vfrom then Ok (false, None)
            else if betweenb (r1_bm rf) (mc_min c) (mc_max c) && betweenb (r1_bid rf) (mc_min c) (mc_max c) &&
                    betweenb (r1_ask rf) (mc_min c) (mc_max c) &&
                    (0 <=? vfrom) && (0 <=? bnum cb) && (vfrom <=? bnum cb) && (length (bhash cb) =? 32)%nat
            then match replen rf with
                 | Ok n => if (mc_maxlen c <? n)%nat then Err EOutOfRange else if (n =? 0)%nat then Err EInvalid else Ok (true, Some rf)
                 | Err e => Err e
                 | Panic s => Panic s
                 end
            else Err EInvalid
      end
  end.
