(* ObservationCodec.v — llo/observation_codec.go Decode at byte level (protobuf LLOObservationProto, with proto
   map fields in any order) and llo/plugin.go ValidateObservation. *)
From stdpp Require Import gmap.
From DS Require Import Base Decimal StreamValue Wire Sort Aggregators RepoConstants Outcome OutcomeCodec Observe.
Open Scope Z_scope.

(* the decoded Observation struct, before attestation checking (raw attestation bytes) *)
Record raw_observation := {
  ro_att : list Z; ro_retire : bool; ro_ts : Z; ro_removes : list Z;
  ro_updates : gmap Z chandef; ro_values : gmap Z sval }.

(* packed repeated uint32: a length-delimited run of varints *)
Fixpoint parse_packed_fuel (fuel : nat) (bs : list Z) : option (list Z) :=
  match fuel with
  | O => None
  | S k => match bs with
           | [] => Some []
           | _ => match parse_varint bs with
                  | Some (v, r) => option_map (cons v) (parse_packed_fuel k r)
                  | None => None
                  end
           end
  end.
Definition repeated_u32 (field : Z) (fs : list rawfield) : option (list Z) :=
  fold_left (fun acc f =>
    match acc with
    | None => None
    | Some l => match f with
                | (k, RVarint v) => if k =? field then Some (l ++ [u32 v]) else acc
                | (k, RBytes b) => if k =? field then option_map (fun vs => l ++ map u32 vs) (parse_packed_fuel (S (length b)) b) else acc
                | _ => acc
                end
    end) fs (Some []).

Definition int64_of (v : Z) : Z := if v <? 2 ^ 63 then v else v - 2 ^ 64.

(* a proto map entry {key = 1; value = 2 (message)}: a missing value is an empty message *)
Definition map_entry (b : list Z) : option (Z * list Z) :=
  match parse_fields b with
  | Some fs => Some (u32 (last_varint 1 fs), match merged_msg 2 fs with Some body => body | None => [] end)
  | None => None
  end.

Fixpoint has_dup (l : list Z) : bool := match l with [] => false | x :: r => existsb (Z.eqb x) r || has_dup r end.

Definition decode_observation (bs : list Z) : res raw_observation :=
  match parse_fields bs with
  | None => Err EMalformed
  | Some fs =>
      match repeated_u32 4 fs with
      | None => Err EMalformed
      | Some removes =>
          if has_dup removes then Err EInvalid else
          match sequence_res (map (fun b => match map_entry b with
                                            | Some (k, body) => cd <- dec_def body ;; Ok (k, cd)
                                            | None => Err EMalformed end) (all_bytes 5 fs)) with
          | Panic s => Panic s | Err e => Err e
          | Ok ups =>
              match sequence_res (map (fun b => match map_entry b with
                                                | Some (k, body) =>
                                                    match parse_lsv body with
                                                    | Some (t, data) => v <- sval_unmarshal t data ;; Ok (k, v)
                                                    | None => Err EMalformed end
                                                | None => Err EMalformed end) (all_bytes 6 fs)) with
              | Panic s => Panic s | Err e => Err e
              | Ok vals =>
                  let ts7 := last_varint 7 fs in
                  let legacy := int64_of (last_varint 3 fs) in
                  if (0 <? ts7) || (0 <=? legacy) then
                    Ok {| ro_att := last_bytes 1 fs; ro_retire := negb (last_varint 2 fs =? 0);
                          ro_ts := if 0 <? ts7 then ts7 else legacy;
                          ro_removes := removes; ro_updates := later_wins ups; ro_values := later_wins vals |}
                  else Err EInvalid
              end
          end
      end
  end.

(* ---- Encode: proto.Marshal of LLOObservationProto. Fields are written in field-number order; the two proto map
   fields (5, 6) and the removal ids (maps.Keys) come in an unspecified order, which is a parameter here.
   A map entry always carries its key (tag 1) and its value message (tag 2), also when the key is 0. ---- *)
Definition enc_entry (k : Z) (body : list Z) : list Z := (tag 1 0 ++ varint k) ++ f_msg 2 body.
Definition encode_observation (rms : list Z) (ups : list (Z * chandef)) (vals : list (Z * sval)) (ob : raw_observation) : list Z :=
  f_bytes 1 (ro_att ob) ++ f_varint 2 (if ro_retire ob then 1 else 0) ++ f_varint 3 (ro_ts ob) ++
  f_bytes 4 (flat_map varint rms) ++
  flat_map (fun e => f_msg 5 (enc_entry (fst e) (enc_def (snd e)))) ups ++
  flat_map (fun e => f_msg 6 (enc_entry (fst e) (enc_lsv (snd e)))) vals ++
  f_varint 7 (ro_ts ob).
(* the orders a given encoding used (for the correspondence check: the model must reproduce Go's bytes exactly
   once told in which order Go happened to iterate its maps) *)
Definition entry_keys (field : Z) (fs : list rawfield) : list Z :=
  omap (fun b => option_map fst (map_entry b)) (all_bytes field fs).
Definition encode_observation_like (bs : list Z) (ob : raw_observation) : list Z :=
  match parse_fields bs with
  | Some fs =>
      encode_observation (default [] (repeated_u32 4 fs))
        (omap (fun k => pair k <$> ro_updates ob !! k) (entry_keys 5 fs))
        (omap (fun k => pair k <$> ro_values ob !! k) (entry_keys 6 fs)) ob
  | None => []
  end.

(* ValidateObservation on the decoded observation (seqNr > 1). codec_ok = Verify of the report codecs. *)
Definition validate_observation (codec_ok : chandef -> bool) (has_pred : bool) (ob : raw_observation) : bool :=
  negb (negb has_pred && negb (bool_decide (ro_att ob = []))) &&
  (Z.of_nat (size (ro_updates ob)) <=? MaxObservationUpdateChannelDefinitionsLength) &&
  (Z.of_nat (length (ro_removes ob)) <=? MaxObservationRemoveChannelIDsLength) &&
  verify_defs codec_ok (ro_updates ob) &&
  (Z.of_nat (size (ro_values ob)) <=? MaxObservationStreamValuesLength) &&
  forallb (fun kv => match snd kv with STsv _ (SDec _) => true | STsv _ _ => false | _ => true end) (map_to_list (ro_values ob)).

(* ---- Plugin.ValidateObservation as a whole, from the bytes ---- *)
Definition plugin_validate (codec_ok : chandef -> bool) (has_pred : bool) (seq : Z) (bs : list Z) : res unit :=
  if seq <? 1 then Err EInvalid
  else if (seq =? 1) && negb (match bs with [] => true | _ => false end) then Err EInvalid
  else match decode_observation bs with
       | Panic s => Panic s
       | Err e => Err e
       | Ok ob => if validate_observation codec_ok has_pred ob then Ok tt else Err EInvalid
       end.

(* ---- Plugin.Observation as a whole (llo/plugin_observation.go) ----
   Inputs besides the previous outcome bytes: the attested retirement report the cache returns (or its error), the
   ShouldRetireCache answer (or its error), the ChannelDefinitionCache contents, the data source (the non-nil values
   it would return for the stream ids it is asked for, or its error).  The wall-clock timestamp is an input too.
   Ok None = the empty observation of the first round. *)
Definition plugin_observation (codec_ok : chandef -> bool) (cf : cfg) (seq : Z) (prev_bytes : list Z) (now : Z)
           (cache_att : res (list Z)) (should_retire : res bool) (expected : gmap Z chandef)
           (source_vals : gmap Z sval) (source_fails : bool) : res (option raw_observation) :=
  if seq <? 1 then Err EInvalid
  else if seq =? 1 then Ok None
  else
    match decode_outcome (c_pver cf) prev_bytes with
    | Panic s => Panic s
    | Err e => Err e
    | Ok prev =>
        if now <? 0 then Err EInvalid
        else if bool_decide (o_stage prev = Retired) then
          Ok (Some {| ro_att := []; ro_retire := false; ro_ts := now; ro_removes := []; ro_updates := ∅; ro_values := ∅ |})
        else if negb (verify_defs codec_ok (o_defs prev)) then Err EInvalid       (* "previousOutcome.Definitions is invalid" *)
        else
          match (if c_has_pred cf && bool_decide (o_stage prev = Staging) then cache_att else Ok []) with
          | Panic s => Panic s
          | Err e => Err e
          | Ok att =>
              match should_retire with
              | Panic s => Panic s
              | Err e => Err e
              | Ok retire =>
                  let '(rm, up) := honest_votes codec_ok prev expected in
                  if bool_decide (o_defs prev = ∅) then
                    Ok (Some {| ro_att := att; ro_retire := retire; ro_ts := now; ro_removes := rm; ro_updates := up; ro_values := ∅ |})
                  else if source_fails then Err EOther
                  else
                    let wanted := unique_stream_set (o_defs prev) in
                    Ok (Some {| ro_att := att; ro_retire := retire; ro_ts := now; ro_removes := rm; ro_updates := up;
                                ro_values := base.filter (fun kv : Z * sval => is_Some (wanted !! fst kv)) source_vals |})
              end
          end
    end.
