(* Decimal.v — math/big integers (sign-magnitude, negative zero representable) and
   shopspring/decimal v1.4.0 as used by the plugins: Cmp (RescalePair), binary form. *)
From DS Require Export Base.

Record bigint := { bneg : bool; bmag : N }.
Definition big_toZ (b : bigint) : Z := if bneg b then - Z.of_N (bmag b) else Z.of_N (bmag b).
(* results of big.Int arithmetic are normalised: never negative zero *)
Definition big_ofZ (z : Z) : bigint := {| bneg := z <? 0; bmag := Z.abs_N z |}.

(* big.Int.Cmp: signs first, then magnitudes; Cmp(-0, +0) = -1 *)
Definition big_cmp (x y : bigint) : comparison :=
  match bneg x, bneg y with
  | false, false => (bmag x ?= bmag y)%N
  | true, true => (bmag y ?= bmag x)%N
  | true, false => Lt
  | false, true => Gt
  end.

Record dec := { dcoef : bigint; dexp : Z }.            (* well-formed: -2^31 <= dexp < 2^31 *)
(* literal used by generated cases: sign flag, magnitude, exponent *)
Definition mkd (n : bool) (m e : Z) : dec := {| dcoef := {| bneg := n; bmag := Z.to_N m |}; dexp := e |}.
Definition mkdec (c e : Z) : dec := {| dcoef := big_ofZ c; dexp := e |}.
Definition dec_wf (d : dec) : bool :=
  (- 2 ^ 31 <=? dexp d) && (dexp d <? 2 ^ 31).

(* Decimal.rescale(exp) for exp < d.exp (the only direction Cmp uses): multiply by 10^(d.exp-exp) *)
Definition rescale_down (d : dec) (e : Z) : dec :=
  if dexp d =? e then d
  else {| dcoef := big_ofZ (big_toZ (dcoef d) * 10 ^ (dexp d - e)); dexp := e |}.

(* Decimal.Cmp *)
Definition dec_cmp (a b : dec) : comparison :=
  if dexp a =? dexp b then big_cmp (dcoef a) (dcoef b)
  else if dexp a <? dexp b then big_cmp (dcoef a) (dcoef (rescale_down b (dexp a)))
  else big_cmp (dcoef (rescale_down a (dexp b))) (dcoef b).

(* numeric order (specification side): a <= b as rational numbers coef * 10^exp *)
Definition scaled (d : dec) (m : Z) : Z := big_toZ (dcoef d) * 10 ^ (dexp d - m).
Definition dle (a b : dec) : Prop :=
  let m := Z.min (dexp a) (dexp b) in scaled a m <= scaled b m.
Definition dleb (a b : dec) : bool :=
  let m := Z.min (dexp a) (dexp b) in scaled a m <=? scaled b m.
Definition deqv (a b : dec) : Prop := dle a b /\ dle b a.
Definition deqvb (a b : dec) : bool := dleb a b && dleb b a.

(* ---- binary form: 4-byte big-endian int32 exponent ++ big.Int gob encoding ---- *)
Definition gob_encode (b : bigint) : bytes :=
  (if bneg b then 3 else 2) :: min_be_bytes (Z.of_N (bmag b)).
Definition gob_decode (bs : bytes) : res bigint :=
  match bs with
  | [] => Ok {| bneg := false; bmag := 0%N |}
  | b :: rest => if (b / 2) =? 1 then Ok {| bneg := Z.odd b; bmag := Z.to_N (be_value rest) |} else Err EMalformed
  end.
Definition int32_of_u32 (u : Z) : Z := if u <? 2 ^ 31 then u else u - 2 ^ 32.
Definition dec_marshal (d : dec) : bytes := be_bytes 4 (dexp d mod 2 ^ 32) ++ gob_encode (dcoef d).
Definition dec_unmarshal (bs : bytes) : res dec :=
  match bs with
  | e0 :: e1 :: e2 :: e3 :: rest =>
      c <- gob_decode rest ;; Ok {| dcoef := c; dexp := int32_of_u32 (be_value [e0; e1; e2; e3]) |}
  | _ => Err EMalformed
  end.

Definition bigint_eqb (a b : bigint) : bool := Bool.eqb (bneg a) (bneg b) && (bmag a =? bmag b)%N.
Definition dec_eqb (a b : dec) : bool := bigint_eqb (dcoef a) (dcoef b) && (dexp a =? dexp b).
