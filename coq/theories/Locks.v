(* Locks.v — C20: the allow-list of rpc/mtls/mtls.go.
   (1) VerifyPeerCertificate as a function of the presented certificates and the current allow-list.
   (2) A small-step model of goroutines running the lock/access programs that tools/srcscan extracts from the
       source (gen/RepoConstants.v: mtls_programs) under sync.RWMutex semantics: any number of threads, any schedule. *)
From DS Require Export Base.
From DS Require Import RepoConstants.

(* ---------- (1) certificate verification ---------- *)
Definition key := bytes.
Inductive cert :=
| CUnparsable                         (* x509.ParseCertificate fails *)
| COtherAlg                           (* parsed, PublicKeyAlgorithm <> Ed25519 (RSA, ECDSA, ...) *)
| CEd (k : key).                      (* parsed Ed25519 certificate carrying key k *)
(* subtle.ConstantTimeCompare = 1 iff equal length and equal content *)
Definition key_in (k : key) (allow : list key) : bool := existsb (bytes_eqb k) allow.
Definition verify_peer (raw : list cert) (allow : list key) : bool :=
  match raw with
  | [CEd k] => key_in k allow
  | _ => false
  end.
(* both sides use the package's credentials (server requires a client certificate; TLS 1.3 only):
   the connection is established iff each side's verification of the other's single certificate succeeds *)
Definition handshake (server_key client_key : key) (server_allow client_allow : list key) : bool :=
  verify_peer [CEd client_key] server_allow && verify_peer [CEd server_key] client_allow.
(* ValidPublicKeysFromEd25519 *)
Definition valid_keys (ks : list key) : bool :=
  match ks with [] => false | _ => forallb (fun k => (length k =? 32)%nat) ks end.

(* ---------- (2) lock programs ---------- *)
Inductive lop := LRLock | LRUnlock | LLock | LUnlock | LRead | LWrite.
Definition lop_of (c : Z) : option lop :=
  if c =? 0 then Some LRLock else if c =? 1 then Some LRUnlock else if c =? 2 then Some LLock
  else if c =? 3 then Some LUnlock else if c =? 4 then Some LRead else if c =? 5 then Some LWrite else None.
(* the operations of one object, in order; None when an opcode is unknown *)
Fixpoint proj (obj : Z) (p : list (Z * Z)) : option (list lop) :=
  match p with
  | [] => Some []
  | (c, o) :: r =>
      match lop_of c, proj obj r with
      | Some op, Some rest => Some (if o =? obj then op :: rest else rest)
      | _, _ => None
      end
  end.
Fixpoint lookup_prog (name : string) (ps : list (string * list (Z * Z))) : option (list (Z * Z)) :=
  match ps with
  | [] => None
  | (n, p) :: r => if String.eqb n name then Some p else lookup_prog name r
  end.
Definition program (name : string) (obj : Z) : option (list lop) :=
  match lookup_prog name mtls_programs with Some p => proj obj p | None => None end.

Inductive hold := HN | HR | HW.
Definition is_HW (h : hold) : bool := match h with HW => true | _ => false end.
Definition is_HR (h : hold) : bool := match h with HR => true | _ => false end.

(* the static lock discipline of one program for one object, from a given held state *)
Fixpoint wl (h : hold) (p : list lop) : bool :=
  match p with
  | [] => match h with HN => true | _ => false end
  | LRLock :: r => match h with HN => wl HR r | _ => false end
  | LRUnlock :: r => match h with HR => wl HN r | _ => false end
  | LLock :: r => match h with HN => wl HW r | _ => false end
  | LUnlock :: r => match h with HW => wl HN r | _ => false end
  | LRead :: r => match h with HN => false | _ => wl h r end
  | LWrite :: r => match h with HW => wl h r | _ => false end
  end.

(* ---------- threads over one shared PublicKeys object ---------- *)
Record thread := {
  th_hold : hold;
  th_prog : list lop;                 (* remaining operations on the shared object *)
  th_arg : list key;                  (* Replace: the new list (copied from its argument under that object's own lock) *)
  th_snaps : list (list key) }.       (* every value this thread read from .keys, most recent first *)
Definition count (p : hold -> bool) (ts : list thread) : nat := length (filter (fun t => p (th_hold t)) ts).
Fixpoint upd {A} (i : nat) (x : A) (l : list A) : list A :=
  match l, i with
  | [], _ => []
  | _ :: r, O => x :: r
  | y :: r, S k => y :: upd k x r
  end.

(* sync.RWMutex: RLock succeeds when no writer holds it, Lock when nobody holds it; a blocked thread cannot step *)
Definition step_thread (ks : list key) (ts : list thread) (t : thread) : option (list key * thread) :=
  match th_prog t with
  | [] => None
  | op :: rest =>
      let mk h snaps := {| th_hold := h; th_prog := rest; th_arg := th_arg t; th_snaps := snaps |} in
      match op, th_hold t with
      | LRLock, HN => if (count is_HW ts =? 0)%nat then Some (ks, mk HR (th_snaps t)) else None
      | LLock, HN => if (count is_HW ts =? 0)%nat && (count is_HR ts =? 0)%nat then Some (ks, mk HW (th_snaps t)) else None
      | LRUnlock, HR => Some (ks, mk HN (th_snaps t))
      | LUnlock, HW => Some (ks, mk HN (th_snaps t))
      | LRead, h => Some (ks, mk h (ks :: th_snaps t))
      | LWrite, h => Some (th_arg t, mk h (th_snaps t))
      | _, _ => None                  (* unlock of an unlocked mutex, re-entrant lock: runtime fault / self-deadlock *)
      end
  end.
Definition sys := (list key * list thread)%type.
Definition sys_step (i : nat) (st : sys) : option sys :=
  let '(ks, ts) := st in
  match nth_error ts i with
  | Some t => match step_thread ks ts t with Some (ks', t') => Some (ks', upd i t' ts) | None => None end
  | None => None
  end.
(* a schedule: which thread takes the next step *)
Fixpoint run (sched : list nat) (st : sys) : option sys :=
  match sched with
  | [] => Some st
  | i :: r => match sys_step i st with Some st' => run r st' | None => None end
  end.

Definition next_op (t : thread) : option lop := match th_prog t with op :: _ => Some op | [] => None end.
Definition is_access (o : option lop) : bool := match o with Some LRead | Some LWrite => true | _ => false end.
(* a fresh goroutine about to call one of the methods *)
Definition spawn (p : list lop) (arg : list key) : thread := {| th_hold := HN; th_prog := p; th_arg := arg; th_snaps := [] |}.
(* the result of isValidPublicKey(k) for a finished verifier thread: membership in the list it read *)
Definition verdict (k : key) (t : thread) : option bool :=
  match th_prog t, th_snaps t with [], s :: _ => Some (key_in k s) | _, _ => None end.
