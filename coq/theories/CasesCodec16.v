(* CasesCodec16.v — evaluation of the `codecs16` projection (C16): observation codec, stream-value binary form,
   configuration / value codecs, retirement report. *)
From stdpp Require Import gmap.
From DS Require Import Base Decimal StreamValue Wire Sort Aggregators Outcome OutcomeCodec Observe ObservationCodec Config RetirementJson CasesHistory.
Open Scope Z_scope.

Inductive c16_case :=
(* an observation built by the harness (None: a hand-mutated message), its encoding, the implementation's decoding *)
| KObs (input : option raw_observation) (bytes : list Z) (decoded : res raw_observation) (valid : option bool) (has_pred : bool)
       (validate_at_0_1_2 : list (res unit))    (* ValidateObservation on the bytes at sequence numbers 0, 1, 2 *)
(* a stream value, MarshalBinary, UnmarshalProtoStreamValue of (type, those bytes) *)
| KSval (v : sval) (bytes : res (list Z)) (decoded : res sval)
(* raw (type, bytes) handed to UnmarshalProtoStreamValue *)
| KSvalRaw (t : Z) (bytes : list Z) (decoded : res sval)
(* LLO offchain config: (version, interval) encoded by OffchainConfig.Encode, decoded by DecodeOffchainConfig *)
| KOffchain (c : offchain_cfg) (bytes : list Z) (decoded : res offchain_cfg)
| KOffchainRaw (bytes : list Z) (decoded : res offchain_cfg)
| KLloOnchain (bytes : list Z) (decoded : res llo_onchain) (reenc : res (list Z))
| KMercOnchain (bytes : list Z) (decoded : res merc_onchain) (reenc : res (list Z))
| KInt192 (v : Z) (enc : res (list Z)) (dec : res Z)
| KInt192Raw (bytes : list Z) (dec : res Z)
(* retirement report: (protocol version, validity starts or nil) -> Encode bytes -> Decode *)
| KRetire (pver : Z) (va : option (gmap Z Z)) (enc : option (list Z)) (dec : option (Z * option (gmap Z Z)))
(* Mercury offchain config: (expiration window, base fee) -> Encode bytes -> DecodeOffchainConfig *)
| KMercOff (window : Z) (fee : dec) (enc : option (list Z)) (dec_ : option (Z * dec))
(* reserved: codecs without a model (none left) *)
| KGoOnly (name : Z) (roundtrip_ok : bool).

Definition raw_obs_eqb (a b : raw_observation) : bool :=
  bool_decide (ro_att a = ro_att b) && Bool.eqb (ro_retire a) (ro_retire b) && (ro_ts a =? ro_ts b) &&
  bool_decide ((list_to_set (ro_removes a) : gset Z) = list_to_set (ro_removes b)) &&
  bool_decide (ro_updates a = ro_updates b) && bool_decide (ro_values a = ro_values b).
Definition res_eqb {A} (eqb : A -> A -> bool) (m i : res A) : bool :=
  match m, i with Ok a, Ok b => eqb a b | Err _, Err _ => true | Panic _, Panic _ => true | _, _ => false end.
Definition bytes_eq (a b : list Z) : bool := bool_decide (a = b).
Definition offchain_eqb (a b : offchain_cfg) : bool := (oc_version a =? oc_version b) && (oc_min_interval a =? oc_min_interval b).
Definition llo_onchain_eqb (a b : llo_onchain) : bool := bool_decide (lo_pred a = lo_pred b).
Definition merc_onchain_eqb (a b : merc_onchain) : bool := (mo_min a =? mo_min b) && (mo_max a =? mo_max b).

Fixpoint all2u {A B} (f : A -> B -> bool) (a : list A) (b : list B) : bool :=
  match a, b with [], [] => true | x :: a', y :: b' => f x y && all2u f a' b' | _, _ => false end.
Definition c16_agrees (c : c16_case) : bool :=
  match c with
  | KObs inp bs dec valid hp vs =>
      res_eqb raw_obs_eqb (decode_observation bs) dec &&
      (* a malformed decoded value (reported as Panic by the harness) is outside the comparison *)
      (if is_panic dec then true
       else all2u (fun sq v => res_eqb (fun _ _ => true) (plugin_validate (fun _ => true) hp sq bs) v) [0; 1; 2] vs) &&
      match inp with Some ob => bytes_eq (encode_observation_like bs ob) bs | None => true end &&
      match valid, dec with
      | Some v, Ok ob => Bool.eqb (validate_observation (fun _ => true) hp ob) v
      | _, _ => true
      end
  | KSval v bs dec => res_eqb bytes_eq (Ok (sval_marshal v)) bs && res_eqb sval_eqb (sval_unmarshal (sv_type v) (sval_marshal v)) dec
  | KSvalRaw t bs dec => res_eqb sval_eqb (sval_unmarshal t bs) dec
  | KOffchain c bs dec => bytes_eq (offchain_encode c) bs && res_eqb offchain_eqb (offchain_decode bs) dec
  | KOffchainRaw bs dec => res_eqb offchain_eqb (offchain_decode bs) dec
  | KLloOnchain bs dec re => res_eqb llo_onchain_eqb (llo_onchain_decode bs) dec &&
                             match dec with Ok c => res_eqb bytes_eq (Ok (llo_onchain_encode c)) re | _ => true end
  | KMercOnchain bs dec re => res_eqb merc_onchain_eqb (merc_onchain_decode bs) dec &&
                              match dec with Ok c => res_eqb bytes_eq (merc_onchain_encode c) re | _ => true end
  | KInt192 v enc dec => res_eqb bytes_eq (encode_int192 v) enc && match enc with Ok b => res_eqb Z.eqb (decode_int192 b) dec | _ => true end
  | KInt192Raw bs dec => res_eqb Z.eqb (decode_int192 bs) dec
  | KRetire pver va enc dec =>
      match enc with
      | Some bs => bytes_eq (rr_encode pver va) bs && bool_decide (rr_decode bs = dec)
      | None => false
      end
  | KMercOff w fee enc d =>
      match enc with
      | Some bs => bytes_eq (merc_off_encode w fee) bs &&
                   match merc_off_decode bs, d with
                   | Some (w1, f1), Some (w2, f2) => (w1 =? w2) && dec_eqb f1 f2
                   | None, None => true
                   | _, _ => false end
      | None => false
      end
  | KGoOnly _ _ => true
  end.

(* C16 on the implementation's results *)
Definition strip_nil_values (ob : raw_observation) : raw_observation := ob.
(* the rejections C16 documents for the observation decoder, read off the raw bytes independently of the decoder model:
   a removal id listed twice (anywhere in the list, not only adjacent), a negative legacy timestamp with the new field unset *)
Definition obs_documented_rejections (bs : list Z) (dec : res raw_observation) : bool :=
  match parse_fields bs with
  | Some fs =>
      (match repeated_u32 4 fs with Some l => if has_dup l then is_err dec else true | None => true end) &&
      (if (last_varint 7 fs =? 0) && (int64_of (last_varint 3 fs) <? 0) then is_err dec else true)
  | None => true
  end.
Definition c16_spec_ok (c : c16_case) : bool :=
  match c with
  | KObs (Some ob) _ dec _ _ vs => match dec with Ok ob' => raw_obs_eqb ob ob' | _ => false end && forallb (fun v => negb (is_panic v)) vs   (* round trip *)
  | KObs None bs dec _ _ vs => negb (is_panic dec) && obs_documented_rejections bs dec && forallb (fun v => negb (is_panic v)) vs
  | KSval v (Ok _) dec => match dec with Ok v' => sval_eqb v v' | _ => (2 <? sval_depth v)%nat end
  | KSval _ _ dec => negb (is_panic dec)
  | KSvalRaw _ _ dec => negb (is_panic dec)
  | KOffchain c _ dec => if offchain_valid c then match dec with Ok c' => offchain_eqb c c' | _ => false end else is_err dec
  | KOffchainRaw _ dec => negb (is_panic dec) && match dec with Ok c => offchain_valid c | _ => true end
  | KLloOnchain bs dec re => negb (is_panic dec) &&
                             match dec with Ok _ => (length bs =? 64)%nat && res_eqb bytes_eq (Ok bs) re | _ => true end
  | KMercOnchain bs dec re => negb (is_panic dec) &&
                              match dec with Ok c => (length bs =? 96)%nat && (mo_min c <=? mo_max c) && res_eqb bytes_eq (Ok bs) re | _ => true end
  | KInt192 v enc dec => if (- 2 ^ 191 <=? v) && (v <? 2 ^ 191)
                         then match enc, dec with Ok b, Ok v' => (length b =? 24)%nat && (v =? v') | _, _ => false end
                         else is_err enc
  | KInt192Raw bs dec => if (length bs =? 24)%nat then is_ok dec else is_err dec
  | KRetire pver va enc dec => match enc with Some _ => bool_decide (dec = Some (pver, va)) | None => false end
  | KMercOff w fee enc d => match enc, d with Some _, Some (w', fee') => (w =? w') && deqvb fee fee' | _, _ => false end
  | KGoOnly _ ok => ok
  end.

Definition c16_branch (c : c16_case) : nat :=
  match c with
  | KObs (Some _) _ _ _ _ _ => 0 | KObs None _ (Ok _) _ _ _ => 1 | KObs None _ _ _ _ _ => 2 | KSval _ _ _ => 3 | KSvalRaw _ _ _ => 4
  | KOffchain _ _ _ => 5 | KOffchainRaw _ _ => 6 | KLloOnchain _ _ _ => 7 | KMercOnchain _ _ _ => 8
  | KInt192 _ _ _ => 9 | KInt192Raw _ _ => 10 | KGoOnly _ _ => 11 | KRetire _ _ _ _ => 11 | KMercOff _ _ _ _ => 11 end%nat.
Definition histogram12 (l : list nat) : list nat := map (fun b => length (List.filter (Nat.eqb b) l)) (seq 0 12).
Definition c16_eval (cs : list c16_case) : list nat * list nat * list nat :=
  (index_where (fun c => negb (c16_agrees c)) cs, index_where (fun c => negb (c16_spec_ok c)) cs, histogram12 (map c16_branch cs)).
