(* Converge.v — C14, specification side: the abstract one-round step of the channel set towards a target, the
   distance measures and the bound. (The concrete step is Outcome.new_defs with the votes of Observe.honest_votes.) *)
From stdpp Require Import gmap.
From DS Require Import Base Sort RepoConstants Outcome Observe.
Open Scope Z_scope.

Definition vote_limit : nat := Z.to_nat MaxObservationUpdateChannelDefinitionsLength.
Definition rm_limit : nat := Z.to_nat MaxObservationRemoveChannelIDsLength.
Definition chan_cap : nat := Z.to_nat MaxOutcomeChannelDefinitionsLength.

(* channels still to remove / to add or replace, ascending *)
Definition rm_todo (cur target : gmap Z chandef) : list Z :=
  filter (fun c => bool_decide (target !! c = None)) (sorted_ids cur).
Definition up_todo (cur target : gmap Z chandef) : list Z :=
  filter (fun c => negb (bool_decide (cur !! c = target !! c))) (sorted_ids target).
Definition rounds_bound (cur target : gmap Z chandef) : nat :=
  let m := Nat.max (length (rm_todo cur target)) (length (up_todo cur target)) in
  ((m + (vote_limit - 1)) / vote_limit)%nat.

(* one agreed round: remove the first rm_limit, then add / replace the first vote_limit (an addition needs room) *)
Definition spec_apply (target : gmap Z chandef) (defs : gmap Z chandef) (c : Z) : gmap Z chandef :=
  match target !! c with
  | Some d => match defs !! c with
              | Some _ => <[c := d]> defs
              | None => if (chan_cap <=? size defs)%nat then defs else <[c := d]> defs
              end
  | None => defs
  end.
Definition spec_step (cur target : gmap Z chandef) : gmap Z chandef :=
  fold_left (spec_apply target) (firstn vote_limit (up_todo cur target))
            (foldr delete cur (firstn rm_limit (rm_todo cur target))).
Fixpoint spec_iter (n : nat) (cur target : gmap Z chandef) : gmap Z chandef :=
  match n with O => cur | S k => spec_iter k (spec_step cur target) target end.

(* F1: the channel sets on the way from cur to target are sub-unions of the two; they are all observable when the
   union is (at most MaxObservationStreamValuesLength unique streams) *)
Definition union_streams_ok (cur target : gmap Z chandef) : bool :=
  (Z.of_nat (size (unique_stream_set cur ∪ unique_stream_set target)) <=? MaxObservationStreamValuesLength).
