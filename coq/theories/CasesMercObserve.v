(* CasesMercObserve.v — evaluation of the `mercobserve` projection: the real MercuryPlugin.Observation (v1..v4) and
   mercury.CalculateFee against MercuryObserve (bytes exactly, except that the wall-clock second is read back from the
   implementation's output and handed to the model). *)
From DS Require Import Base Sort Decimal MercuryAgg Config MercuryReport MercuryWire MercuryObserve CasesMercReport.
Open Scope Z_scope.

Inductive mround_out := MRNone | MRReport (bm ts : Z) | MRDecline | MRErr | MRPanic.
Inductive mobv_case :=
| MO234 (ver : Z) (base : dec) (ds_fail : bool) (ds : ds234) (out : res bytes) (now : Z) (asked_ok : bool)
| MO1 (prev_nil : bool) (ds_fail : bool) (ds : ds1) (out : res bytes) (now : Z) (asked_ok : bool)
| MFee (price : Z) (base : dec) (out : res Z)
(* a nominal round on the implementation: the benchmark values the correct nodes' data sources returned, the number of
   faulty senders (at most f), what the real Report returned, the harness's clock (seconds) before and after *)
| MRound (ver f : Z) (correct : list (option Z)) (n_faulty : Z) (out : mround_out) (t0 t1 : Z).

Definition mobv_agrees (c : mobv_case) : bool :=
  match c with
  | MO234 ver base fail ds out now _ =>
      match merc_observe234 ver base now fail ds, out with
      | Ok m, Ok bs => bytes_eqb (merc_encode234 ver m) bs && option_eqb mobs_eqb (merc_decode234 ver bs) (Some m)
      | Err _, Err _ => true
      | Panic _, Panic _ => true
      | _, _ => false
      end
  | MO1 prev_nil fail ds out now _ =>
      match merc_observe1 now prev_nil fail ds, out with
      | Ok m, Ok bs => bytes_eqb (merc_encode1 m) bs && option_eqb mobs1_eqb (merc_decode1 bs) (Some m)
      | Err _, Err _ => true
      | Panic _, Panic _ => true
      | _, _ => false
      end
  | MFee price base out =>
      match merc_calc_fee price base, out with
      | Ok a, Ok b => a =? b
      | Panic _, Panic _ => true
      | _, _ => false
      end
  | MRound _ _ _ _ _ _ _ => true
  end.

Definition in192 (v : Z) : bool := (- 2 ^ 191 <=? v) && (v <=? max_int192).
(* a parsed field is the data source's value, or flagged invalid *)
Definition price_from (src : option Z) (must : bool) (f : field) : bool :=
  match src with
  | Some v => if in192 v then (if snd f then fst f =? v else negb must) else negb (snd f)
  | None => negb (snd f)
  end.
Definition fee_from (base : dec) (src : option Z) (f : field) : bool :=
  match src with
  | None => negb (snd f)
  | Some p =>
      if p <=? -1 then snd f && (fst f =? max_int192)
      else if p =? 0 then snd f && (fst f =? 0)
      else if snd f then (if 0 <=? dzc base then 0 <=? fst f else fst f <=? 0) else true
  end.

(* on the implementation alone: a correct node's observation is never dropped by parseAttributedObservation, carries
   the values its data source returned, asks for the max-finalized value exactly without a previous report, errs only
   when the data source as a whole failed, and panics only through the owner-set base fee exponent *)
Definition mobv_spec_ok (c : mobv_case) : bool :=
  match c with
  | MO234 ver base fail ds out now asked =>
      asked &&
      match out with
      | Panic _ => negb (int32_in (dexp base + 16))
      | Err _ => fail
      | Ok bs =>
          negb fail && (Z.of_nat (length bs) <=? merc_limit ver) &&      (* fits the length the plugin declares to libocr *)
          match merc_decode234 ver bs with
          | None => false
          | Some m =>
              match parse234 ver m with
              | None => false
              | Some p =>
                  (p_ts p =? now) && price_from (ds_bm ds) (negb (ver =? 3)) (p_bm p) &&
                  (if ver =? 3 then price_from (ds_bid ds) false (p_bid p) && price_from (ds_ask ds) false (p_ask p) else true) &&
                  fee_from base (ds_link ds) (p_link p) && fee_from base (ds_native ds) (p_native p) &&
                  (match ds_mfts ds with Some v => snd (p_mfts p) && (fst (p_mfts p) =? v) | None => negb (snd (p_mfts p)) end) &&
                  (if ver =? 4 then match ds_status ds with Some v => snd (p_status p) && (fst (p_status p) =? v) | None => negb (snd (p_status p)) end
                   else true)
              end
          end
      end
  | MO1 prev_nil fail ds out now asked =>
      asked &&
      match out with
      | Panic _ => false
      | Err _ => fail
      | Ok bs =>
          negb fail &&
          (if (Z.of_nat (length (d1_blocks ds)) <=? RepoConstants.MaxAllowedBlocks) &&
              forallb (fun b => (length (bhash b) <=? 32)%nat) (d1_blocks ds) &&
              (length (match d1_cur_hash ds with Some hh => hh | None => [] end) <=? 32)%nat
           then Z.of_nat (length bs) <=? merc_limit 1 else true) &&
          match merc_decode1 bs with
          | None => false
          | Some m =>
              (* v1 observations are dropped by the parser when the data source's blocks are malformed; otherwise not *)
              match parse1 m with
              | Some p => price_from (d1_bm ds) false (q_bm p) && price_from (d1_bid ds) false (q_bid p) && price_from (d1_ask ds) false (q_ask p) &&
                          (if prev_nil then true else negb (snd (q_mfb p)))
              | None => true
              end
          end
      end
  | MFee price base out =>
      match out with
      | Panic _ => negb (int32_in (dexp base + 16))
      | Ok v => if (price =? 0) || (dzc base =? 0) then v =? 0 else true
      | Err _ => false
      end
  | MRound ver f correct nf out t0 t1 =>
      (* every correct node's observation is counted: the plugin reports, the benchmark lies between two correct
         data-source values and the timestamp between the clock readings *)
      let vals := flat_map (fun o => match o with Some v => [v] | None => [] end) correct in
      match out, vals with
      | MRReport bm ts, v0 :: _ =>
          (fold_left Z.min vals v0 <=? bm) && (bm <=? fold_left Z.max vals v0) && (t0 <=? ts) && (ts <=? t1)
      | _, _ => false
      end
  end.

Definition mobv_branch (c : mobv_case) : nat :=
  match c with
  | MO234 _ _ _ _ (Ok _) _ _ => 0
  | MO1 _ _ _ (Ok _) _ _ => 1
  | MO234 _ _ _ _ (Err _) _ _ | MO1 _ _ _ (Err _) _ _ => 2
  | MO234 _ _ _ _ (Panic _) _ _ | MO1 _ _ _ (Panic _) _ _ => 3
  | MFee _ _ (Panic _) => 5
  | MFee _ _ _ => 4
  | MRound _ _ _ _ _ _ _ => 6
  end%nat.
Definition mobv_eval (cs : list mobv_case) : list nat * list nat * list nat :=
  (index_where (fun c => negb (mobv_agrees c)) cs, index_where (fun c => negb (mobv_spec_ok c)) cs,
   map (fun b => length (List.filter (Nat.eqb b) (map mobv_branch cs))) (seq 0 7)).
