(* Sort.v — Go's insertion sort (what sort.Slice runs for n <= 12; stable, moves an element left
   while less(x, predecessor)), and the abstract notion "a sorted permutation". *)
From DS Require Export Base.
From Coq Require Export Permutation Sorted.

Section Sort.
  Context {A : Type} (less : A -> A -> bool).
  (* rp is the already-sorted prefix in REVERSE order *)
  Fixpoint ins_rev (x : A) (rp : list A) : list A :=
    match rp with
    | [] => [x]
    | p :: r => if less x p then p :: ins_rev x r else x :: p :: r
    end.
  Definition isort (l : list A) : list A := rev (fold_left (fun rp x => ins_rev x rp) l []).
End Sort.

Definition nth_default {A} (d : A) (l : list A) (n : nat) : A := nth n l d.
(* the rank-k "median": element at index len/2 *)
Definition median_idx {A} (l : list A) : nat := (length l / 2)%nat.
