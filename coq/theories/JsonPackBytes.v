(* JsonPackBytes.v — llo/json_report_codec.go Pack at BYTE level: what json.Marshal writes for the `packed` struct
   ({"configDigest":"<hex>","seqNr":N,"report":<raw JSON, already compact>,"sigs":null | [{"Signature":"<base64>","Signer":N},..]}),
   with encoding/base64's standard alphabet and padding for the signatures. *)
From DS Require Import Base Decimal StreamValue TextForms.
Open Scope Z_scope.

Definition b64c (i : Z) : Z :=
  if i <? 26 then 65 + i else if i <? 52 then 71 + i else if i <? 62 then i - 4 else if i =? 62 then 43 else 47.
Definition b64i (c : Z) : option Z :=
  if (65 <=? c) && (c <=? 90) then Some (c - 65)
  else if (97 <=? c) && (c <=? 122) then Some (c - 71)
  else if (48 <=? c) && (c <=? 57) then Some (c + 4)
  else if c =? 43 then Some 62 else if c =? 47 then Some 63 else None.

Fixpoint b64_encode (bs : bytes) : bytes :=
  match bs with
  | a :: b :: c :: r =>
      b64c (a / 4) :: b64c ((a mod 4) * 16 + b / 16) :: b64c ((b mod 16) * 4 + c / 64) :: b64c (c mod 64) :: b64_encode r
  | [a; b] => [b64c (a / 4); b64c ((a mod 4) * 16 + b / 16); b64c ((b mod 16) * 4); 61]
  | [a] => [b64c (a / 4); b64c ((a mod 4) * 16); 61; 61]
  | [] => []
  end.

(* canonical padded input only (what b64_encode writes) *)
Fixpoint b64_decode_fuel (fuel : nat) (s : bytes) : option bytes :=
  match fuel with
  | O => None
  | S k =>
      match s with
      | [] => Some []
      | w :: x :: y :: z :: rest =>
          match b64i w, b64i x with
          | Some p, Some q =>
              if (y =? 61) && (z =? 61) then
                match rest with [] => if q mod 16 =? 0 then Some [p * 4 + q / 16] else None | _ => None end
              else match b64i y with
                   | Some r =>
                       if z =? 61 then
                         match rest with [] => if r mod 4 =? 0 then Some [p * 4 + q / 16; (q mod 16) * 16 + r / 4] else None | _ => None end
                       else match b64i z with
                            | Some t => match b64_decode_fuel k rest with
                                        | Some tl => Some (p * 4 + q / 16 :: (q mod 16) * 16 + r / 4 :: (r mod 4) * 64 + t :: tl)
                                        | None => None
                                        end
                            | None => None
                            end
                   | None => None
                   end
          | _, _ => None
          end
      | _ => None
      end
  end.
Definition b64_decode (s : bytes) : option bytes := b64_decode_fuel (S (length s)) s.

Definition s_p1 : bytes := str_bytes "{""configDigest"":""".
Definition s_p2 : bytes := str_bytes """,""seqNr"":".
Definition s_p3 : bytes := str_bytes ",""report"":".
Definition s_p4 : bytes := str_bytes ",""sigs"":".
Definition s_null : bytes := str_bytes "null".
Definition s_s1 : bytes := str_bytes "{""Signature"":""".
Definition s_s2 : bytes := str_bytes """,""Signer"":".

Definition sig_bytes (sg : bytes * Z) : bytes := s_s1 ++ b64_encode (fst sg) ++ s_s2 ++ nat_string (snd sg) ++ [125].
Fixpoint join_sigs (l : list (bytes * Z)) : bytes :=
  match l with [] => [] | [e] => sig_bytes e | e :: r => sig_bytes e ++ 44 :: join_sigs r end.

(* sigs_nil: the signature slice is nil (JSON null) rather than empty (JSON []) *)
Definition json_pack_bytes (t : ptuple) (sigs_nil : bool) : bytes :=
  s_p1 ++ hex_encode (pt_digest t) ++ s_p2 ++ nat_string (pt_seq t) ++ s_p3 ++ pt_report t ++ s_p4 ++
  (match pt_sigs t with [] => if sigs_nil then s_null else [91; 93] | l => 91 :: join_sigs l ++ [93] end) ++ [125].

(* ---- a reader for exactly that shape (Unpack: encoding/json accepts much more — not modelled).  The report is read with
   JsonReportBytes.json_report_parse_rest, i.e. it must have the shape JSONReportCodec.Encode writes.  Returns the tuple
   and whether the signature list was JSON null. ---- *)
From DS Require Import JsonReportBytes.
Definition is_b64_char (c : Z) : bool := match b64i c with Some _ => true | None => c =? 61 end.
Definition parse_sig_head (s : bytes) : option ((bytes * Z) * bytes) :=
  match is_prefix s_s1 s with
  | Some s1 =>
      let '(txt, s2) := span is_b64_char s1 in
      match is_prefix s_s2 s2 with
      | Some s3 =>
          let '(ds, s4) := span is_digit s3 in
          match ds, s4 with
          | _ :: _, 125 :: tl => match b64_decode txt with Some sg => Some ((sg, digits_val ds), tl) | None => None end
          | _, _ => None
          end
      | None => None
      end
  | None => None
  end.
Fixpoint parse_sigs (fuel : nat) (s : bytes) : option (list (bytes * Z) * bytes) :=
  match fuel with
  | O => None
  | S n =>
      match parse_sig_head s with
      | Some (e, 44 :: rest) => match parse_sigs n rest with Some (es, r) => Some (e :: es, r) | None => None end
      | Some (e, rest) => Some ([e], rest)
      | None => None
      end
  end.
Definition json_unpack_bytes (s : bytes) : option (ptuple * bool) :=
  match is_prefix s_p1 s with None => None | Some r1 =>
  let '(hx, r2) := span is_hex_char r1 in
  match is_prefix s_p2 r2 with None => None | Some r3 =>
  let '(sq, r4) := span is_digit r3 in
  match sq, is_prefix s_p3 r4 with
  | _ :: _, Some r5 =>
      match json_report_parse_rest r5 with
      | Some (j, r6) =>
          match is_prefix s_p4 r6, hex_decode hx with
          | Some r7, Some d =>
              if negb (length d =? 32)%nat then None else
              let mk sg := {| pt_digest := d; pt_seq := digits_val sq; pt_report := json_report_bytes j; pt_sigs := sg |} in
              if bytes_eqb r7 (s_null ++ [125]) then Some (mk [], true)
              else if bytes_eqb r7 [91; 93; 125] then Some (mk [], false)
              else match r7 with
                   | 91 :: r8 => match parse_sigs (S (length r8)) r8 with
                                 | Some (sgs, [93; 125]) => Some (mk sgs, false)
                                 | _ => None
                                 end
                   | _ => None
                   end
          | _, _ => None
          end
      | None => None
      end
  | _, _ => None
  end end end.

(* UnpackDecode: Unpack, then JSONReportCodec.Decode of the embedded report *)
Definition json_unpack_decode_bytes (s : bytes) : option (res (bytes * Z * freport * list (bytes * Z))) :=
  match json_unpack_bytes s with
  | Some (t, _) =>
      match json_report_parse (pt_report t) with
      | Some j => match json_decode j with
                  | Some (Ok fr) => Some (Ok (pt_digest t, pt_seq t, fr, pt_sigs t))
                  | Some (Err e) => Some (Err e)
                  | Some (Panic p) => Some (Panic p)
                  | None => None
                  end
      | None => None
      end
  | None => None
  end.
