(* JsonPackBytes.v — llo/json_report_codec.go Pack at BYTE level: what json.Marshal writes for the `packed` struct
   ({"configDigest":"<hex>","seqNr":N,"report":<raw JSON, already compact>,"sigs":null | [{"Signature":"<base64>","Signer":N},..]}),
   with encoding/base64's standard alphabet and padding for the signatures. *)
From DS Require Import Base Decimal StreamValue TextForms.
Open Scope Z_scope.

Definition b64c (i : Z) : Z :=
  if i <? 26 then 65 + i else if i <? 52 then 71 + i else if i <? 62 then i - 4 else if i =? 62 then 43 else 47.
Definition b64i (c : Z) : option Z :=
  if (65 <=? c) && (c <=? 90) then Some (c - 65)
  else if (97 <=? c) && (c <=? 122) then Some (c - 71)
  else if (48 <=? c) && (c <=? 57) then Some (c + 4)
  else if c =? 43 then Some 62 else if c =? 47 then Some 63 else None.

Fixpoint b64_encode (bs : bytes) : bytes :=
  match bs with
  | a :: b :: c :: r =>
      b64c (a / 4) :: b64c ((a mod 4) * 16 + b / 16) :: b64c ((b mod 16) * 4 + c / 64) :: b64c (c mod 64) :: b64_encode r
  | [a; b] => [b64c (a / 4); b64c ((a mod 4) * 16 + b / 16); b64c ((b mod 16) * 4); 61]
  | [a] => [b64c (a / 4); b64c ((a mod 4) * 16); 61; 61]
  | [] => []
  end.

(* canonical padded input only (what b64_encode writes) *)
Fixpoint b64_decode_fuel (fuel : nat) (s : bytes) : option bytes :=
  match fuel with
  | O => None
  | S k =>
      match s with
      | [] => Some []
      | w :: x :: y :: z :: rest =>
          match b64i w, b64i x with
          | Some p, Some q =>
              if (y =? 61) && (z =? 61) then
                match rest with [] => if q mod 16 =? 0 then Some [p * 4 + q / 16] else None | _ => None end
              else match b64i y with
                   | Some r =>
                       if z =? 61 then
                         match rest with [] => if r mod 4 =? 0 then Some [p * 4 + q / 16; (q mod 16) * 16 + r / 4] else None | _ => None end
                       else match b64i z with
                            | Some t => match b64_decode_fuel k rest with
                                        | Some tl => Some (p * 4 + q / 16 :: (q mod 16) * 16 + r / 4 :: (r mod 4) * 64 + t :: tl)
                                        | None => None
                                        end
                            | None => None
                            end
                   | None => None
                   end
          | _, _ => None
          end
      | _ => None
      end
  end.
Definition b64_decode (s : bytes) : option bytes := b64_decode_fuel (S (length s)) s.

Definition s_p1 : bytes := str_bytes "{""configDigest"":""".
Definition s_p2 : bytes := str_bytes """,""seqNr"":".
Definition s_p3 : bytes := str_bytes ",""report"":".
Definition s_p4 : bytes := str_bytes ",""sigs"":".
Definition s_null : bytes := str_bytes "null".
Definition s_s1 : bytes := str_bytes "{""Signature"":""".
Definition s_s2 : bytes := str_bytes """,""Signer"":".

Definition sig_bytes (sg : bytes * Z) : bytes := s_s1 ++ b64_encode (fst sg) ++ s_s2 ++ nat_string (snd sg) ++ [125].
Fixpoint join_sigs (l : list (bytes * Z)) : bytes :=
  match l with [] => [] | [e] => sig_bytes e | e :: r => sig_bytes e ++ 44 :: join_sigs r end.

(* sigs_nil: the signature slice is nil (JSON null) rather than empty (JSON []) *)
Definition json_pack_bytes (t : ptuple) (sigs_nil : bool) : bytes :=
  s_p1 ++ hex_encode (pt_digest t) ++ s_p2 ++ nat_string (pt_seq t) ++ s_p3 ++ pt_report t ++ s_p4 ++
  (match pt_sigs t with [] => if sigs_nil then s_null else [91; 93] | l => 91 :: join_sigs l ++ [93] end) ++ [125].
