(* Base.v — shared vocabulary of the model: results, bytes, big-endian integers, hex literals.
   Executable definitions only; proofs live in coq/proofs. *)
From Coq Require Export String Ascii.
From Coq Require Export List ZArith NArith Bool Lia.
Export ListNotations.
Open Scope Z_scope.

(* ---------- results: every model function returns Ok / Err kind / Panic site ---------- *)
Inductive errkind :=
| EInvalidType        (* unknown/ill-formed type string or type tag *)
| EOutOfRange         (* value does not fit *)
| ENil                (* nil / missing value *)
| EMalformed          (* undecodable / structurally invalid input *)
| EInvalid            (* validation failure *)
| ETooFew             (* not enough (usable) observations / votes *)
| EUnsupported        (* unsupported kind for this operation *)
| EOther.

Inductive res (A : Type) := Ok (a : A) | Err (e : errkind) | Panic (site : Z).
Arguments Ok {A} a.
Arguments Err {A} e.
Arguments Panic {A} site.

Definition bind {A B} (r : res A) (f : A -> res B) : res B :=
  match r with Ok a => f a | Err e => Err e | Panic s => Panic s end.
Notation "x <- r ;; k" := (bind r (fun x => k)) (at level 62, r at next level, right associativity).

Definition is_ok {A} (r : res A) : bool := match r with Ok _ => true | _ => false end.
Definition is_err {A} (r : res A) : bool := match r with Err _ => true | _ => false end.
Definition is_panic {A} (r : res A) : bool := match r with Panic _ => true | _ => false end.

Definition errkind_eqb (a b : errkind) : bool :=
  match a, b with
  | EInvalidType, EInvalidType | EOutOfRange, EOutOfRange | ENil, ENil | EMalformed, EMalformed
  | EInvalid, EInvalid | ETooFew, ETooFew | EUnsupported, EUnsupported | EOther, EOther => true
  | _, _ => false
  end.

(* ---------- bytes ---------- *)
Definition byte := Z.                       (* well-formed: 0 <= b < 256 *)
Definition bytes := list Z.
Definition byte_ok (b : Z) : bool := (0 <=? b) && (b <? 256).
Definition bytes_ok (bs : bytes) : bool := forallb byte_ok bs.

Fixpoint list_eqb {A} (eqb : A -> A -> bool) (a b : list A) : bool :=
  match a, b with
  | [], [] => true
  | x :: xs, y :: ys => eqb x y && list_eqb eqb xs ys
  | _, _ => false
  end.
Definition bytes_eqb : bytes -> bytes -> bool := list_eqb Z.eqb.

Definition option_eqb {A} (eqb : A -> A -> bool) (a b : option A) : bool :=
  match a, b with Some x, Some y => eqb x y | None, None => true | _, _ => false end.

(* big-endian, fixed length: be_bytes n v is the n low-order base-256 digits of v (v >= 0) *)
Fixpoint be_bytes (n : nat) (v : Z) : bytes :=
  match n with O => [] | S k => be_bytes k (v / 256) ++ [v mod 256] end.
Definition be_value (bs : bytes) : Z := fold_left (fun acc b => acc * 256 + b) bs 0.

(* two's-complement reading of a big-endian byte string as a (8*len)-bit signed integer *)
Definition twos_read (bs : bytes) : Z :=
  let w := 8 * Z.of_nat (length bs) in
  let u := be_value bs in
  if u <? 2 ^ (w - 1) then u else u - 2 ^ w.

(* minimal big-endian magnitude (math/big Bytes()): no leading zero, empty for 0 *)
Fixpoint strip_zeros (bs : bytes) : bytes :=
  match bs with 0 :: r => strip_zeros r | _ => bs end.
Definition byte_len_fuel (v : Z) : nat := S (Z.to_nat (Z.log2 v) / 8).
Definition min_be_bytes (v : Z) : bytes := strip_zeros (be_bytes (byte_len_fuel v) v).

(* ---------- hex literals (used by the generated cases files) ---------- *)
Definition hexval (c : ascii) : Z :=
  let n := Z.of_nat (nat_of_ascii c) in
  if (48 <=? n) && (n <=? 57) then n - 48
  else if (97 <=? n) && (n <=? 102) then n - 87
  else if (65 <=? n) && (n <=? 70) then n - 55 else 0.
Fixpoint hx (s : string) : bytes :=
  match s with
  | String a (String b r) => (hexval a * 16 + hexval b) :: hx r
  | _ => []
  end.
(* compact byte-string literal used by generated cases: n bytes, big-endian value v.
   One pass over the bits of v (repeated division by 256 is quadratic for long strings). *)
Fixpoint pos_bytes_le (p : positive) (acc w : Z) : bytes :=
  match p with
  | xH => [acc + w]
  | xO q => if w =? 128 then acc :: pos_bytes_le q 0 1 else pos_bytes_le q acc (2 * w)
  | xI q => if w =? 128 then (acc + w) :: pos_bytes_le q 0 1 else pos_bytes_le q (acc + w) (2 * w)
  end.
Definition bz (n : nat) (v : Z) : bytes :=
  let le := match v with Zpos p => pos_bytes_le p 0 1 | _ => [] end in
  repeat 0 (n - length le) ++ rev le.
Fixpoint str_bytes (s : string) : bytes :=
  match s with String a r => Z.of_nat (nat_of_ascii a) :: str_bytes r | EmptyString => [] end.

(* decimal digits of a non-negative integer, as ASCII bytes (strconv.Itoa / big.Int.String) *)
Fixpoint dec_digits_fuel (fuel : nat) (v : Z) (acc : bytes) : bytes :=
  match fuel with
  | O => acc
  | S k => let acc' := (48 + v mod 10) :: acc in
           if v / 10 =? 0 then acc' else dec_digits_fuel k (v / 10) acc'
  end.
Definition dec_digits (v : Z) : bytes := dec_digits_fuel (S (Z.to_nat (Z.log2 v))) v [].

Fixpoint is_prefix (p s : bytes) : option bytes :=
  match p, s with
  | [], _ => Some s
  | x :: p', y :: s' => if x =? y then is_prefix p' s' else None
  | _ :: _, [] => None
  end.

Definition sum_nat (l : list nat) : nat := fold_left Nat.add l O.
Fixpoint index_where_aux {A} (p : A -> bool) (l : list A) (i : nat) : list nat :=
  match l with [] => [] | x :: r => (if p x then [i] else []) ++ index_where_aux p r (S i) end.
(* indices (0-based) of the elements satisfying p — used to report mismatching cases *)
Definition index_where {A} (p : A -> bool) (l : list A) : list nat := index_where_aux p l O.
