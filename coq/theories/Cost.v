(* Cost.v — C19: cost models (work = bytes copied / digits materialised), as functions of the input.
   (1) decoding of nested timestamped values: every level's UnmarshalBinary receives (a copy of) the rest of the message.
       `unguarded` is the decoder of the pinned tree (recurses to any depth); `guarded` is the repaired one (D7):
       it looks one level ahead and never recurses deeper than that.
   (2) decimal comparison rescales to the smaller exponent: it materialises 10^|ea - eb| (F2).
   The agreement of these models with the code is checked by measurement only (projection `cost`). *)
From DS Require Export Base Decimal.

(* a nested stream value message: a decimal leaf of `n` payload bytes, or a timestamped wrapper with `h` header bytes *)
Inductive nest := Leaf (n : nat) | Wrap (h : nat) (inner : nest).
Fixpoint nsize (t : nest) : nat := match t with Leaf n => n | Wrap h i => h + nsize i end.
Fixpoint ndepth (t : nest) : nat := match t with Leaf _ => O | Wrap _ i => S (ndepth i) end.

(* pinned tree: each level unmarshals its whole payload, then recurses *)
Fixpoint cost_unguarded (t : nest) : nat :=
  match t with Leaf n => n | Wrap h i => (h + nsize i) + cost_unguarded i end.

(* repaired tree: this level's payload, a look-ahead parse of the next level, then at most one more level *)
Definition cost_guarded (t : nest) : nat :=
  match t with
  | Leaf n => n
  | Wrap h i =>
      (h + nsize i) +
      match i with
      | Leaf n => n
      | Wrap h1 j => (h1 + nsize j) +               (* look-ahead *)
                     match j with
                     | Leaf n => (h1 + n) + n        (* one nested level is decoded *)
                     | Wrap _ _ => 0                 (* deeper: rejected without decoding *)
                     end
      end
  end.

Fixpoint chain (k : nat) (h : nat) (leaf : nat) : nest := match k with O => Leaf leaf | S k' => Wrap h (chain k' h leaf) end.

(* (2) digits materialised by Decimal.Cmp / rescale *)
Definition cmp_cost (a b : dec) : Z := Z.abs (dexp a - dexp b).
(* wire size of a decimal: 4 exponent bytes, 1 sign/version byte, magnitude bytes *)
Definition dec_wire_size (d : dec) : Z := 5 + Z.of_nat (length (min_be_bytes (Z.of_N (bmag (dcoef d))))).

(* (3) ValidateObservation after decoding: one visit per vote and per stream value, per-definition work linear in its streams *)
Definition validate_cost (n_removes n_updates streams_in_updates n_values : nat) : nat :=
  n_removes + n_updates + streams_in_updates + n_values.
