(* PluginOutcome.v — llo.Plugin.Outcome at byte level: the previous outcome arrives as bytes, the new outcome leaves
   as bytes (outcome codec of the configured protocol version).  Same computation as Outcome.outcome_step, which ends
   in the abstraction codec_commit instead of the real encoder; proofs/StepBytes.v relates the two. *)
From stdpp Require Import gmap.
From DS Require Import Base Decimal StreamValue Sort Aggregators RepoConstants Outcome OutcomeCodec.
Open Scope Z_scope.

Section WithHash.
  Context (h : Z -> chandef -> list Z).

  Definition plugin_outcome_step (cf : cfg) (seq : Z) (prev : outcome) (aos : list (option observation)) : res (list Z) :=
    let f := c_f cf in
    if (length aos <? 2 * f + 1)%nat then Err EInvalid
    else if seq <=? 1 then encode_outcome (c_pver cf) (initial_outcome cf)
    else
      match accept_observations (c_has_pred cf) aos with
      | Panic s => Panic s
      | Err e => Err e
      | Ok (rr, obs) =>
          match obs with
          | [] => Err ETooFew
          | _ =>
              match median_ts (map ob_ts obs) with
              | Panic s => Panic s
              | Err e => Err e
              | Ok ts =>
                  let promoted := bool_decide (o_stage prev = Staging) && match rr with Some _ => true | None => false end in
                  let st1 := if promoted then Production else o_stage prev in
                  let st2 := if bool_decide (st1 = Production) && (f <? retire_votes obs)%nat then Retired else st1 in
                  let retired := bool_decide (st2 = Retired) in
                  let defs := new_defs h f retired (o_defs prev) obs in
                  let removed := if retired then [] else removed_ids f obs in
                  let carried := map_imap (fun c pva => Some (if is_reportable prev c (c_pver cf) (c_interval cf)
                                                                 then o_ts prev else pva)) (o_va prev) in
                  let va0 := match rr with
                             | Some rva => if promoted && negb (bool_decide (rva = ∅)) then rva else carried
                             | None => carried
                             end in
                  let va1 := va0 ∪ ((fun _ => ts) <$> defs) in
                  let va := foldr delete va1 removed in
                  match collect_aggs f prev obs (referenced_pairs defs) with
                  | Panic s => Panic s
                  | Err e => Err e
                  | Ok aggs =>
                      encode_outcome (c_pver cf)
                        {| o_stage := st2; o_ts := ts; o_defs := defs; o_va := va; o_aggs := aggs |}
                  end
              end
          end
      end.

  (* the previous outcome bytes are not looked at in the first round *)
  Definition plugin_outcome (cf : cfg) (seq : Z) (prev_bytes : list Z) (aos : list (option observation)) : res (list Z) :=
    if seq <=? 1 then plugin_outcome_step cf seq (initial_outcome cf) aos
    else match decode_outcome (c_pver cf) prev_bytes with
         | Ok prev => plugin_outcome_step cf seq prev aos
         | Err e => Err e
         | Panic s => Panic s
         end.
End WithHash.
