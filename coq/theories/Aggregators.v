(* Aggregators.v — llo/aggregators.go: mostCommonType, MedianAggregator, QuoteAggregator,
   ModeAggregator (over an abstract serialisation), and plugin_outcome.go medianTimestamp. *)
From DS Require Export StreamValue Sort.

Notation slot := (option sval) (only parsing).   (* a StreamValue interface: nil or a value *)

(* ---- mostCommonType: faithful fold. State: the three buckets (by enum value), the current most
   common type and the largest bucket (always the full bucket of that type, see proofs). ---- *)
Record mct_state := { b0 : list sval; b1 : list sval; b2 : list sval; mct : Z; largest : list sval }.
Definition mct_init : mct_state := {| b0 := []; b1 := []; b2 := []; mct := 0; largest := [] |}.
Definition bucket (s : mct_state) (t : Z) : list sval :=
  if t =? 0 then b0 s else if t =? 1 then b1 s else b2 s.
Definition set_bucket (s : mct_state) (t : Z) (l : list sval) : mct_state :=
  if t =? 0 then {| b0 := l; b1 := b1 s; b2 := b2 s; mct := mct s; largest := largest s |}
  else if t =? 1 then {| b0 := b0 s; b1 := l; b2 := b2 s; mct := mct s; largest := largest s |}
  else {| b0 := b0 s; b1 := b1 s; b2 := l; mct := mct s; largest := largest s |}.
Definition mct_step (s : mct_state) (v : slot) : mct_state :=
  match v with
  | None => s
  | Some x =>
      let t := sv_type x in
      let bk := bucket s t ++ [x] in
      let s' := set_bucket s t bk in
      if (length (largest s) <? length bk)%nat || ((length bk =? length (largest s))%nat && (t <? mct s))
      then {| b0 := b0 s'; b1 := b1 s'; b2 := b2 s'; mct := t; largest := bk |}
      else s'
  end.
Definition most_common_type (vs : list slot) : Z * list sval :=
  let s := fold_left mct_step vs mct_init in (mct s, largest s).

Definition dec_less (a b : dec) : bool := cmp_lt0 (dec_cmp a b).

(* the Decimal/Quote branch of MedianAggregator: iterates over ALL values (not the bucket) *)
Definition median_observations (vs : list slot) : list dec :=
  flat_map (fun v => match v with
                     | Some (SDec d) => [d]
                     | Some (SQuote _ bm _) => [bm]
                     | _ => [] end) vs.

Definition median_plain (vs : list slot) (f : nat) : res dec :=
  let obs := median_observations vs in
  if (length obs <=? f)%nat then Err ETooFew
  else match nth_error (isort dec_less obs) (median_idx obs) with
       | Some d => Ok d
       | None => Panic 2
       end.

(* MedianAggregator *)
Definition median_agg (vs : list slot) (f : nat) : res sval :=
  match most_common_type vs with
  | (2, typ_values) =>
      (* svalues[i] / timestamps[i]: entries whose nested value is not a Decimal stay nil / 0 *)
      let svalues : list slot := map (fun v => match v with
                                               | STsv _ (SDec d) => Some (SDec d)
                                               | _ => None end) typ_values in
      let timestamps : list Z := map (fun v => match v with
                                               | STsv t (SDec _) => t
                                               | _ => 0 end) typ_values in
      match most_common_type svalues with
      | (0, _) | (1, _) =>
          d <- median_plain svalues f ;;
          match nth_error (isort Z.ltb timestamps) (median_idx timestamps) with
          | Some t => Ok (STsv t (SDec d))
          | None => Panic 3
          end
      | _ => Err EUnsupported
      end
  | (0, _) | (1, _) => d <- median_plain vs f ;; Ok (SDec d)
  | _ => Err EUnsupported
  end.

(* QuoteAggregator *)
Definition quote_observations (vs : list slot) : list (dec * dec * dec) :=
  flat_map (fun v => match v with
                     | Some (SQuote bid bm ask) => if quote_valid bid bm ask then [(bid, bm, ask)] else []
                     | _ => [] end) vs.
Definition q_bid (q : dec * dec * dec) := fst (fst q).
Definition q_bm (q : dec * dec * dec) := snd (fst q).
Definition q_ask (q : dec * dec * dec) := snd q.
Definition quote_agg (vs : list slot) (f : nat) : res sval :=
  let obs := quote_observations vs in
  if (length obs <=? f)%nat then Err ETooFew
  else
    (* three successive in-place sorts of the same slice *)
    let s1 := isort (fun a b => dec_less (q_bm a) (q_bm b)) obs in
    let s2 := isort (fun a b => dec_less (q_bid a) (q_bid b)) s1 in
    let s3 := isort (fun a b => dec_less (q_ask a) (q_ask b)) s2 in
    match nth_error s1 (median_idx obs), nth_error s2 (median_idx obs), nth_error s3 (median_idx obs) with
    | Some m1, Some m2, Some m3 => Ok (SQuote (q_bid m2) (q_bm m1) (q_ask m3))
    | _, _, _ => Panic 4
    end.

(* medianTimestamp *)
Definition median_ts (ts : list Z) : res Z :=
  match nth_error (isort Z.ltb ts) (median_idx ts) with Some t => Ok t | None => Panic 5 end.

(* ---- ModeAggregator ---- *)
(* lexicographic order on byte strings = Go's string comparison used by slices.Sort(keys) *)
Fixpoint bytes_ltb (a b : bytes) : bool :=
  match a, b with
  | [], [] => false
  | [], _ :: _ => true
  | _ :: _, [] => false
  | x :: a', y :: b' => if x <? y then true else if y <? x then false else bytes_ltb a' b'
  end.
Definition count_key (k : bytes) (keys : list bytes) : nat := length (filter (bytes_eqb k) keys).
Fixpoint dedup (l : list bytes) : list bytes :=
  match l with [] => [] | x :: r => if existsb (bytes_eqb x) r then dedup r else x :: dedup r end.

Definition mode_agg (vs : list slot) (f : nat) : res (option sval) :=
  let '(typ, bucket) := most_common_type vs in
  let sers := map sval_marshal bucket in
  let keys := isort bytes_ltb (dedup sers) in
  (* first key (ascending) with the strictly largest count *)
  let '(mode_ser, mode_count) :=
    fold_left (fun acc k => let c := count_key k sers in if (snd acc <? c)%nat then (k, c) else acc) keys ([], O) in
  if (mode_count <? f + 1)%nat then Err ETooFew
  else match mode_ser with
       | [] => Ok None
       | _ => v <- sval_unmarshal typ mode_ser ;; Ok (Some v)
       end.
