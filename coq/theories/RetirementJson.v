(* RetirementJson.v — llo/retirement_report_codec.go: StandardRetirementReportCodec = encoding/json of
   RetirementReport{ProtocolVersion uint32; ValidAfterNanoseconds map[uint32]uint64}.  json.Marshal writes struct
   fields in declaration order and map entries sorted by their KEY STRINGS (so "10" comes before "2"); a nil map is
   `null`.  The parser below accepts exactly that canonical shape (what a correct predecessor emits); encoding/json's
   leniency on other inputs (whitespace, field order, duplicates) is not modelled. *)
From stdpp Require Import gmap.
From DS Require Import Base Sort Outcome TextForms.
Open Scope Z_scope.

Definition s_r1 : bytes := str_bytes "{""ProtocolVersion"":".
Definition s_r2 : bytes := str_bytes ",""ValidAfterNanoseconds"":".
Definition s_null : bytes := str_bytes "null".
Definition rr_entry (e : Z * Z) : bytes := 34 :: nat_string (fst e) ++ [34; 58] ++ nat_string (snd e).    (* "k":v *)
Definition rr_key_less (a b : Z * Z) : bool := bytes_lt (nat_string (fst a)) (nat_string (fst b)).
Definition rr_entries (m : gmap Z Z) : list (Z * Z) := isort rr_key_less (map_to_list m).
Fixpoint join_entries (l : list (Z * Z)) : bytes :=
  match l with [] => [] | [e] => rr_entry e | e :: r => rr_entry e ++ 44 :: join_entries r end.

(* va = None models the nil map *)
Definition rr_encode (pver : Z) (va : option (gmap Z Z)) : bytes :=
  s_r1 ++ nat_string pver ++ s_r2 ++
  match va with None => s_null | Some m => 123 :: join_entries (rr_entries m) ++ [125] end ++ [125].

(* after the opening brace of the map: "k":v(,"k":v)* followed by the closing brace; returns the entries and the rest *)
Fixpoint parse_entries (fuel : nat) (s : bytes) : option (list (Z * Z) * bytes) :=
  match fuel with
  | O => None
  | S n =>
      match s with
      | 34 :: r1 =>
          let '(ks, r2) := span is_digit r1 in
          match ks, r2 with
          | _ :: _, 34 :: 58 :: r3 =>
              let '(vs, r4) := span is_digit r3 in
              match vs, r4 with
              | _ :: _, 44 :: r5 => match parse_entries n r5 with
                                    | Some (es, rest) => Some ((digits_val ks, digits_val vs) :: es, rest)
                                    | None => None end
              | _ :: _, 125 :: r5 => Some ([(digits_val ks, digits_val vs)], r5)
              | _, _ => None
              end
          | _, _ => None
          end
      | _ => None
      end
  end.

Definition rr_decode (s : bytes) : option (Z * option (gmap Z Z)) :=
  match is_prefix s_r1 s with
  | None => None
  | Some r1 =>
      let '(ps, r2) := span is_digit r1 in
      match ps with
      | [] => None
      | _ =>
          match is_prefix s_r2 r2 with
          | None => None
          | Some r3 =>
              match is_prefix s_null r3 with
              | Some r4 => if bool_decide (r4 = [125]) then Some (digits_val ps, None) else None
              | None =>
                  match r3 with
                  | 123 :: 125 :: r4 => if bool_decide (r4 = [125]) then Some (digits_val ps, Some ∅) else None
                  | 123 :: r4 =>
                      match parse_entries (S (length r4)) r4 with
                      | Some (es, r5) => if bool_decide (r5 = [125]) then Some (digits_val ps, Some (list_to_map es)) else None
                      | None => None
                      end
                  | _ => None
                  end
              end
          end
      end
  end.

(* ---- mercury/offchain_config.go: encoding/json of OffchainConfig{ExpirationWindow uint32 `expirationWindow`;
   BaseUSDFee decimal.Decimal `baseUSDFee`} — the decimal is written as a quoted Decimal.String() ---- *)
Definition s_m1 : bytes := str_bytes "{""expirationWindow"":".
Definition s_m2 : bytes := str_bytes ",""baseUSDFee"":""".
Definition merc_off_encode (window : Z) (fee : Decimal.dec) : bytes :=
  s_m1 ++ nat_string window ++ s_m2 ++ dec_string fee ++ [34; 125].
Definition is_num_char (c : Z) : bool := is_digit_dot c || (c =? 45).
Definition merc_off_decode (s : bytes) : option (Z * Decimal.dec) :=
  match is_prefix s_m1 s with
  | None => None
  | Some r1 =>
      let '(ws, r2) := span is_digit r1 in
      match ws with
      | [] => None
      | _ =>
          match is_prefix s_m2 r2 with
          | None => None
          | Some r3 =>
              let '(num, r4) := span is_num_char r3 in
              if bool_decide (r4 = [34; 125]) then
                match dec_parse num with Some (Ok d) => Some (digits_val ws, d) | _ => None end
              else None
          end
      end
  end.
