(* CasesReportsFlow.v — evaluation of the `reportsflow` projection (C11): the control flow of Plugin.Reports on
   arbitrary outcome bytes against PluginReports.plugin_reports, with the harness's mock codecs. *)
From stdpp Require Import gmap.
From DS Require Import Base Decimal StreamValue Outcome OutcomeCodec PluginReports.
Open Scope Z_scope.

Inductive rf_case := RF (cf : cfg) (seq : Z) (modes : list (Z * Z)) (outcome_bytes : list Z) (out : res (list (list Z))).

(* the harness's mock codecs: mode 0 returns the channel id as four bytes, mode 1 refuses, absent = not registered *)
Definition rf_codecs (modes : list (Z * Z)) (fmt : Z) : option (chandef -> report -> res (list Z)) :=
  match find (fun p => fst p =? fmt) modes with
  | Some (_, m) => if m =? 0 then Some (fun _ r => Ok (be_bytes 4 (r_chan r))) else Some (fun _ _ => Err EOther)
  | None => None
  end.
Definition rf_retire (_ : gmap Z Z) : res (list Z) := Ok [170].

Definition rf_agrees (c : rf_case) : bool :=
  match c with
  | RF cf seq modes bs out =>
      match plugin_reports (rf_codecs modes) rf_retire cf seq bs, out with
      | Ok a, Ok b => bool_decide (a = b)
      | Err _, Err _ => true
      | Panic _, Panic _ => true
      | _, _ => false
      end
  end.
Definition rf_spec_ok (c : rf_case) : bool := match c with RF _ _ _ _ out => negb (is_panic out) end.
Definition rf_branch (c : rf_case) : nat :=
  match c with RF _ _ _ _ (Ok []) => 0 | RF _ _ _ _ (Ok _) => 1 | RF _ _ _ _ (Err _) => 2 | RF _ _ _ _ (Panic _) => 3 end%nat.
Definition rf_eval (cs : list rf_case) : list nat * list nat * list nat :=
  (index_where (fun c => negb (rf_agrees c)) cs, index_where (fun c => negb (rf_spec_ok c)) cs,
   map (fun b => length (List.filter (Nat.eqb b) (map rf_branch cs))) (seq 0 4)).
