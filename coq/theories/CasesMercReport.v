(* CasesMercReport.v — evaluation of the `mercreport` projection: MercuryPlugin.Report of v1..v4 with a recording
   codec, single rounds and threaded histories (each emitted report becomes the next round's previous report). *)
From DS Require Import Base Sort MercuryAgg Config MercuryReport MercuryWire.

Record mround := {
  rd_prev : option (res Z);                    (* what the codec extracts from the previous report *)
  rd_replen : res nat;                         (* codec BuildReport behaviour this round: length or error *)
  rd_obs : list (option mobs * bool);          (* decoded observation message (None: undecodable bytes); honest? *)
  rd_raw : list bytes;                         (* the observation bytes handed to Report, same order *)
  rd_out : res (bool * option fields234);      (* implementation: shouldReport, fields handed to BuildReport *)
  rd_stable : bool }.                          (* repeated evaluation on fresh plugins gave the same result *)
Record mround1 := {
  r1d_prev : option (res Z); r1d_replen : res nat; r1d_obs : list (option mobs1 * bool); r1d_raw : list bytes;
  r1d_out : res (bool * option fields1); r1d_stable : bool }.

Inductive merc_case :=
| M234 (ver : Z) (c : mcfg) (rounds : list mround)
| M1 (c : mcfg) (rounds : list mround1).

Definition fields_eqb (a b : fields234) : bool :=
  (rf_ts a =? rf_ts b) && (rf_valid_from a =? rf_valid_from b) && (rf_expires a =? rf_expires b) && (rf_bm a =? rf_bm b) &&
  (rf_bid a =? rf_bid b) && (rf_ask a =? rf_ask b) && (rf_link a =? rf_link b) && (rf_native a =? rf_native b) && (rf_status a =? rf_status b).
Definition fields1_eqb (a b : fields1) : bool :=
  (r1_ts a =? r1_ts b) && (r1_valid_from a =? r1_valid_from b) && block_eqb (r1_cur a) (r1_cur b) && (r1_bm a =? r1_bm b) &&
  (r1_bid a =? r1_bid b) && (r1_ask a =? r1_ask b).
Definition out_eqb {F} (feqb : F -> F -> bool) (m i : res (bool * option F)) : bool :=
  match m, i with
  | Ok (b1, Some f1), Ok (b2, Some f2) => Bool.eqb b1 b2 && feqb f1 f2
  | Ok (b1, None), Ok (b2, None) => Bool.eqb b1 b2
  | Err _, Err _ => true
  | Panic _, Panic _ => true
  | _, _ => false
  end.
Fixpoint omap' {A B} (f : A -> option B) (l : list A) : list B :=
  match l with [] => [] | x :: r => match f x with Some y => y :: omap' f r | None => omap' f r end end.

Definition mobs_eqb (a b : mobs) : bool :=
  (mo_ts a =? mo_ts b) && Bool.eqb (mo_prices_valid a) (mo_prices_valid b) && bytes_eqb (mo_bm a) (mo_bm b) &&
  bytes_eqb (mo_bid a) (mo_bid b) && bytes_eqb (mo_ask a) (mo_ask b) && Bool.eqb (mo_mfts_valid a) (mo_mfts_valid b) &&
  (mo_mfts a =? mo_mfts b) && Bool.eqb (mo_link_valid a) (mo_link_valid b) && bytes_eqb (mo_link a) (mo_link b) &&
  Bool.eqb (mo_native_valid a) (mo_native_valid b) && bytes_eqb (mo_native a) (mo_native b) &&
  Bool.eqb (mo_status_valid a) (mo_status_valid b) && (mo_status a =? mo_status b).
Definition mobs1_eqb (a b : mobs1) : bool :=
  (m1_ts a =? m1_ts b) && Bool.eqb (m1_prices_valid a) (m1_prices_valid b) && bytes_eqb (m1_bm a) (m1_bm b) &&
  bytes_eqb (m1_bid a) (m1_bid b) && bytes_eqb (m1_ask a) (m1_ask b) && list_eqb block_eqb (m1_blocks a) (m1_blocks b) &&
  Bool.eqb (m1_cur_valid a) (m1_cur_valid b) && block_eqb (m1_cur a) (m1_cur b) &&
  Bool.eqb (m1_mfb_valid a) (m1_mfb_valid b) && (m1_mfb a =? m1_mfb b).
Fixpoint all2 {A B} (f : A -> B -> bool) (a : list A) (b : list B) : bool :=
  match a, b with [], [] => true | x :: a', y :: b' => f x y && all2 f a' b' | _, _ => false end.
(* the byte-level decoders reproduce what proto.Unmarshal delivered for every observation of the round *)
Definition raw_agrees234 (ver : Z) (r : mround) : bool :=
  all2 (fun raw o => option_eqb mobs_eqb (merc_decode234 ver raw) (fst o)) (rd_raw r) (rd_obs r).
Definition raw_agrees1 (r : mround1) : bool :=
  all2 (fun raw o => option_eqb mobs1_eqb (merc_decode1 raw) (fst o)) (r1d_raw r) (r1d_obs r).
Definition round_agrees (ver : Z) (c : mcfg) (r : mround) : bool :=
  raw_agrees234 ver r &&
  out_eqb fields_eqb (report234 ver c (rd_prev r) (fun _ => rd_replen r) (omap' fst (rd_obs r))) (rd_out r).
Definition round1_agrees (c : mcfg) (r : mround1) : bool :=
  raw_agrees1 r &&
  out_eqb fields1_eqb (report1 c (r1d_prev r) (fun _ => r1d_replen r) (omap' fst (r1d_obs r))) (r1d_out r).

(* ---- C07 on the fields the implementation handed to BuildReport ---- *)
Definition status_votes (s : Z) (obs : list (option mobs * bool)) : nat :=
  length (filter (fun p => match fst p with Some o => mo_status_valid o && (mo_status o =? s) | None => false end) obs).
Definition c07_round_ok (ver : Z) (c : mcfg) (r : mround) : bool :=
  negb (is_panic (rd_out r)) &&
  match rd_out r with
  | Ok (true, Some rf) =>
      betweenb (rf_bm rf) (mc_min c) (mc_max c) &&
      (if ver =? 3 then (mc_min c <=? rf_bid rf) && (rf_bid rf <=? rf_bm rf) && (rf_bm rf <=? rf_ask rf) && (rf_ask rf <=? mc_max c) else true) &&
      betweenb (rf_link rf) 0 max_int192 && betweenb (rf_native rf) 0 max_int192 &&
      (rf_valid_from rf <=? rf_ts rf) && (rf_ts rf <=? rf_expires rf) && (rf_expires rf =? rf_ts rf + mc_window c) &&
      (rf_expires rf <=? max_uint32) &&
      (if ver =? 4 then (mc_f c + 1 <=? status_votes (rf_status rf) (rd_obs r))%nat else true) &&
      match rd_replen r with Ok n => (0 <? n)%nat && (n <=? mc_maxlen c)%nat | _ => false end
  | Ok (true, None) => false
  | _ => true
  end.
Definition c07_round1_ok (c : mcfg) (r : mround1) : bool :=
  negb (is_panic (r1d_out r)) &&
  match r1d_out r with
  | Ok (true, Some rf) =>
      betweenb (r1_bm rf) (mc_min c) (mc_max c) && betweenb (r1_bid rf) (mc_min c) (mc_max c) && betweenb (r1_ask rf) (mc_min c) (mc_max c) &&
      (0 <=? r1_valid_from rf) && (r1_valid_from rf <=? bnum (r1_cur rf)) && (length (bhash (r1_cur rf)) =? 32)%nat &&
      match r1d_replen r with Ok n => (0 <? n)%nat && (n <=? mc_maxlen c)%nat | _ => false end
  | Ok (true, None) => false
  | _ => true
  end.

(* ---- C08 on the emitted fields (v2-v4): when the well-formed observations of correct observers outnumber all the
   others, the reported timestamp and benchmark price (v3: bid and ask too) lie between two values they reported ---- *)
Definition wf_honest (ver : Z) (p : option mobs * bool) : option (Z * Z * Z * Z) :=
  match p with
  | (Some o, true) =>
      if mo_prices_valid o then
        match decode_int192 (mo_bm o), decode_int192 (mo_bid o), decode_int192 (mo_ask o) with
        | Ok bm, Ok bid, Ok ask =>
            if (if ver =? 3 then (bid <=? bm) && (bm <=? ask) else true) &&
               (if mo_link_valid o then is_ok (decode_int192 (mo_link o)) else true) &&
               (if mo_native_valid o then is_ok (decode_int192 (mo_native o)) else true)
            then Some (mo_ts o, bm, bid, ask) else None
        | Ok bm, _, _ => if (negb (ver =? 3)) &&
                            (if mo_link_valid o then is_ok (decode_int192 (mo_link o)) else true) &&
                            (if mo_native_valid o then is_ok (decode_int192 (mo_native o)) else true)
                         then Some (mo_ts o, bm, 0, 0) else None
        | _, _, _ => None
        end
      else None
  | _ => None
  end.
Definition in_span (v : Z) (l : list Z) : bool := existsb (fun x => x <=? v) l && existsb (fun x => v <=? x) l.
Definition c08_round_ok (ver : Z) (c : mcfg) (r : mround) : bool :=
  match rd_out r with
  | Ok (true, Some rf) =>
      let hs := omap' (wf_honest ver) (rd_obs r) in
      if (length (rd_obs r) - length hs <? length hs)%nat then
        in_span (rf_ts rf) (map (fun q => fst (fst (fst q))) hs) &&
        in_span (rf_bm rf) (map (fun q => snd (fst (fst q))) hs) &&
        (if ver =? 3 then in_span (rf_bid rf) (map (fun q => snd (fst q)) hs) && in_span (rf_ask rf) (map snd hs) else true)
      else true
  | _ => true
  end.

(* C09, no previous report: the start is one past the greatest max-finalized value reported (as valid) by at least
   f+1 observers, or the current timestamp when that value is negative ("none exists") *)
Definition mf_votes (v : Z) (ps : list pao) : nat := length (filter (fun p => snd (p_mfts p) && (fst (p_mfts p) =? v)) ps).
Definition bootstrap_ok (ver : Z) (c : mcfg) (r : mround) (rf : fields234) : bool :=
  let ps := omap' (parse234 ver) (omap' fst (rd_obs r)) in
  let agreed := filter (fun v => (mc_f c + 1 <=? mf_votes v ps)%nat) (map (fun p => fst (p_mfts p)) ps) in
  match agreed with
  | [] => false
  | v0 :: _ => let m := fold_left Z.max agreed v0 in
               if m <? 0 then rf_valid_from rf =? rf_ts rf else (rf_valid_from rf =? m + 1) && (m + 1 <=? max_uint32)
  end.

(* C09, "declines - without error - when the new end would precede that start": a previous report ending at pts, a consensus
   timestamp below pts + 1, and nothing else wrong with the round (enough parsable observations, prices / market status agreed,
   no 32-bit overflow of the start or the expiry): the plugin must answer (false, nil), so an error here violates the property.
   Evaluated on the implementation's answer, independently of the model of Report (seed C09-F). *)
Definition must_decline (ver : Z) (c : mcfg) (r : mround) : bool :=
  match rd_prev r with
  | Some (Ok pts) =>
      let f := mc_f c in
      let paos := omap' (parse234 ver) (omap' fst (rd_obs r)) in
      (f + 1 <=? length paos)%nat &&
      match consensus_timestamp (map p_ts paos) with
      | Ok ts => (ts <? pts + 1) && (pts <? max_uint32) && negb (max_uint32 <? ts + mc_window c) &&
                 is_ok (consensus_price (map p_bm paos) f) &&
                 (if ver =? 3 then is_ok (consensus_price (map p_bid paos) f) && is_ok (consensus_price (map p_ask paos) f) else true) &&
                 (if ver =? 4 then is_ok (market_status (map p_status paos) f) else true)
      | _ => false
      end
  | _ => false
  end.

(* ---- C09 over a threaded history: (end of the last emitted report) ---- *)
Fixpoint c09_chain (ver : Z) (c : mcfg) (last : option Z) (rs : list mround) : bool :=
  match rs with
  | [] => true
  | r :: rest =>
      match rd_out r with
      | Ok (true, Some rf) =>
          (* previous report present: start exactly one past its end; never before *)
          match rd_prev r with
          | Some (Ok pts) => (rf_valid_from rf =? pts + 1)
          | Some _ => false
          | None => bootstrap_ok ver c r rf
          end &&
          (* threaded (previous report = the last emitted one): adjacent to it *)
          match last, rd_prev r with Some e, Some (Ok pts) => if pts =? e then (rf_valid_from rf =? e + 1) else true | _, _ => true end &&
          (rf_valid_from rf <=? rf_ts rf) && c09_chain ver c (Some (rf_ts rf)) rest
      | Ok (false, _) =>
          (* declining must be error-free and only because the new end precedes the start (checked via the model) *)
          c09_chain ver c last rest
      | _ => negb (must_decline ver c r) && c09_chain ver c last rest
      end
  end.
(* v1, no previous report: the start is one past a max-finalized block number that at least f+1 observers reported AS VALID
   (an observer whose fetch failed does not vote), and no other valid value has more votes *)
Definition mfb_votes (v : Z) (ps : list pao1) : nat := length (filter (fun p => snd (q_mfb p) && (fst (q_mfb p) =? v)) ps).
Definition bootstrap1_ok (c : mcfg) (r : mround1) (rf : fields1) : bool :=
  let ps := omap' parse1 (omap' fst (r1d_obs r)) in
  let v := r1_valid_from rf - 1 in
  ((mc_f c + 1 <=? mfb_votes v ps)%nat &&
   forallb (fun p => negb (snd (q_mfb p)) || (mfb_votes (fst (q_mfb p)) ps <=? mfb_votes v ps)%nat) ps)
  || ((r1_valid_from rf =? 0) && (mc_f c + 1 <=? mfb_votes (-1) ps)%nat).
(* v1: previous report ending at block pb (pb + 1 within int64), an agreed current block below pb + 1, prices and timestamp agreed *)
Definition must_decline1 (c : mcfg) (r : mround1) : bool :=
  match r1d_prev r with
  | Some (Ok pb) =>
      let f := mc_f c in
      let ps := omap' parse1 (omap' fst (r1d_obs r)) in
      (f + 1 <=? length ps)%nat && (pb + 1 <? 2 ^ 63) &&
      is_ok (consensus_timestamp (map q_ts ps)) &&
      is_ok (consensus_price (map q_bm ps) f) && is_ok (consensus_price (map q_bid ps) f) && is_ok (consensus_price (map q_ask ps) f) &&
      match latest_block (map q_blocks ps) f with Ok cb => bnum cb <? pb + 1 | _ => false end
  | _ => false
  end.
Fixpoint c09_chain1 (c : mcfg) (last : option Z) (rs : list mround1) : bool :=
  match rs with
  | [] => true
  | r :: rest =>
      match r1d_out r with
      | Ok (true, Some rf) =>
          match r1d_prev r with Some (Ok pb) => (r1_valid_from rf =? pb + 1) | Some _ => false | None => bootstrap1_ok c r rf end &&
          match last, r1d_prev r with Some e, Some (Ok pb) => if pb =? e then (r1_valid_from rf =? e + 1) else true | _, _ => true end &&
          (r1_valid_from rf <=? bnum (r1_cur rf)) && c09_chain1 c (Some (bnum (r1_cur rf))) rest
      | Ok (false, _) => c09_chain1 c last rest
      | _ => negb (must_decline1 c r) && c09_chain1 c last rest
      end
  end.

Definition merc_agrees (c : merc_case) : bool :=
  match c with
  | M234 ver cf rs => forallb (round_agrees ver cf) rs
  | M1 cf rs => forallb (round1_agrees cf) rs
  end.
Definition merc_c07 (c : merc_case) : bool :=
  match c with M234 ver cf rs => forallb (c07_round_ok ver cf) rs | M1 cf rs => forallb (c07_round1_ok cf) rs end.
Definition merc_c09 (c : merc_case) : bool :=
  match c with M234 ver cf rs => c09_chain ver cf None rs | M1 cf rs => c09_chain1 cf None rs end.
Definition merc_c08 (c : merc_case) : bool :=
  match c with M234 ver cf rs => forallb (c08_round_ok ver cf) rs | M1 _ _ => true end.
Definition merc_c01 (c : merc_case) : bool :=
  match c with M234 _ _ rs => forallb rd_stable rs | M1 _ rs => forallb r1d_stable rs end.
Definition merc_counts (c : merc_case) : list nat :=
  match c with
  | M234 _ _ rs => [length rs; length (filter (fun r => match rd_out r with Ok (true, _) => true | _ => false end) rs);
                    length (filter (fun r => match rd_out r with Ok (false, _) => true | _ => false end) rs);
                    length (filter (fun r => is_err (rd_out r)) rs)]
  | M1 _ rs => [length rs; length (filter (fun r => match r1d_out r with Ok (true, _) => true | _ => false end) rs);
                length (filter (fun r => match r1d_out r with Ok (false, _) => true | _ => false end) rs);
                length (filter (fun r => is_err (r1d_out r)) rs)]
  end.
Definition sum4 (l : list (list nat)) : list nat :=
  fold_left (fun acc x => match acc, x with [a; b; c; d], [a'; b'; c'; d'] => [a + a'; b + b'; c + c'; d + d']%nat | _, _ => acc end) l [O; O; O; O].
(* result: mismatching cases; C07 failures; C09 failures; C01 (unstable); C08 failures; [rounds; reported; declined; errors] *)
Definition merc_eval (cs : list merc_case) :=
  (index_where (fun c => negb (merc_agrees c)) cs, index_where (fun c => negb (merc_c07 c)) cs,
   index_where (fun c => negb (merc_c09 c)) cs, index_where (fun c => negb (merc_c01 c)) cs,
   index_where (fun c => negb (merc_c08 c)) cs, sum4 (map merc_counts cs)).
