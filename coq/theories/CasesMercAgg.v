(* CasesMercAgg.v — evaluation of the `mercagg` projection (exported mercury.GetConsensus*,
   v1.GetConsensus*, v4.GetConsensusMarketStatus) and the C08 predicate on the Go results. *)
From DS Require Import Base Sort MercuryAgg.

Inductive magg_in :=
| MTimestamp (ts : list (Z * bool))                              (* value, honest? *)
| MPrice (xs : list (field * bool))
| MFee (xs : list (field * bool))
| MMaxFinTs (xs : list (field * bool))
| MMaxFinBlock (xs : list (field * bool))
| MStatus (xs : list (field * bool))
| MLatestBlock (obs : list ((list block * option block) * bool)).

Inductive magg_out := OZ (v : Z) | OBlock (b : block).
Record magg_case := { mg_in : magg_in; mg_f : nat; mg_out : res magg_out; mg_out_perm : res magg_out }.

Definition liftZ (r : res Z) : res magg_out := match r with Ok v => Ok (OZ v) | Err e => Err e | Panic s => Panic s end.
Definition magg_model (c : magg_case) : res magg_out :=
  let f := mg_f c in
  match mg_in c with
  | MTimestamp ts => liftZ (consensus_timestamp (map fst ts))
  | MPrice xs => liftZ (consensus_price (map fst xs) f)
  | MFee xs => liftZ (consensus_fee (map fst xs) f)
  | MMaxFinTs xs => liftZ (max_finalized_ts (map fst xs) f)
  | MMaxFinBlock xs => liftZ (max_finalized_block (map fst xs) f)
  | MStatus xs => liftZ (market_status (map fst xs) f)
  | MLatestBlock obs => match latest_block (map fst obs) f with Ok b => Ok (OBlock b) | Err e => Err e | Panic s => Panic s end
  end.
Definition mout_eqb (a b : magg_out) : bool :=
  match a, b with OZ x, OZ y => x =? y | OBlock x, OBlock y => block_eqb x y | _, _ => false end.
Definition mres_eqb (a b : res magg_out) : bool :=
  match a, b with Ok x, Ok y => mout_eqb x y | Err _, Err _ => true | Panic _, Panic _ => true | _, _ => false end.
Definition magg_agrees (c : magg_case) : bool := mres_eqb (magg_model c) (mg_out c).

(* ---- C08 predicate, specification side ---- *)
Definition in_rangeZ (v : Z) (hs : list Z) : bool := existsb (fun lo => lo <=? v) hs && existsb (fun hi => v <=? hi) hs.
Definition usable_tagged (nonneg : bool) (xs : list (field * bool)) : list (Z * bool) :=
  flat_map (fun p => match p with ((v, true), h) => if nonneg && (v <? 0) then [] else [(v, h)] | _ => [] end) xs.
Definition n_h (l : list (Z * bool)) : nat := length (filter snd l).
Definition n_b (l : list (Z * bool)) : nat := length (filter (fun p => negb (snd p)) l).
Definition median_spec (u : list (Z * bool)) (f : nat) (check_f : bool) (out : res magg_out) : bool :=
  negb (is_panic out) &&
  (if check_f && (length u <? f + 1)%nat then is_err out else true) &&
  (if (n_b u <? n_h u)%nat then
     match out with
     | Ok (OZ v) => in_rangeZ v (map fst (filter snd u))
     | Ok _ => false
     | _ => true
     end else true).
Definition votes (v : Z) (xs : list (field * bool)) : nat :=
  length (filter (fun p => match p with ((x, true), _) => x =? v | _ => false end) xs).
Definition honest_votes (v : Z) (xs : list (field * bool)) : nat :=
  length (filter (fun p => match p with ((x, true), true) => x =? v | _ => false end) xs).
Definition n_faulty {A} (xs : list (A * bool)) : nat := length (filter (fun p => negb (snd p)) xs).
Definition selector_spec (xs : list (field * bool)) (f : nat) (out : res magg_out) : bool :=
  negb (is_panic out) &&
  match out with
  | Ok (OZ v) => (f + 1 <=? votes v xs)%nat && (if (n_faulty xs <=? f)%nat then (1 <=? honest_votes v xs)%nat else true)
  | Ok _ => false
  | Err _ => true
  | Panic _ => false
  end.
Definition block_votes (b : block) (obs : list ((list block * option block) * bool)) (only_honest : bool) : nat :=
  length (filter (fun p => (if only_honest then snd p else true) && existsb (block_eqb b) (obs_blocks (fst p))) obs).

Definition c08_spec_ok (c : magg_case) : bool :=
  let f := mg_f c in
  mres_eqb (mg_out c) (mg_out_perm c) &&      (* independent of the order of the observation list *)
  match mg_in c with
  | MTimestamp ts => median_spec ts f false (mg_out c)
  | MPrice xs => median_spec (usable_tagged false xs) f true (mg_out c)
  | MFee xs => median_spec (usable_tagged true xs) f true (mg_out c) &&
               match mg_out c with Ok (OZ v) => 0 <=? v | _ => true end
  | MMaxFinTs xs | MMaxFinBlock xs | MStatus xs =>
      selector_spec xs f (mg_out c) &&
      (* no value with f+1 votes: an error *)
      (if forallb (fun p => (votes (fst (fst p)) xs <=? f)%nat) xs then is_err (mg_out c) else true)
  | MLatestBlock obs =>
      negb (is_panic (mg_out c)) &&
      match mg_out c with
      | Ok (OBlock b) => (f + 1 <=? block_votes b obs false)%nat &&
                         (if (n_faulty obs <=? f)%nat then (1 <=? block_votes b obs true)%nat else true)
      | Ok _ => false
      | _ => true
      end
  end.

Definition magg_branch (c : magg_case) : nat :=
  match mg_in c, magg_model c with
  | MTimestamp _, _ => 0 | MPrice _, Ok _ => 1 | MPrice _, _ => 2 | MFee _, Ok _ => 3 | MFee _, _ => 4
  | MMaxFinTs _, Ok _ => 5 | MMaxFinTs _, _ => 6 | MMaxFinBlock _, Ok _ => 7 | MMaxFinBlock _, _ => 8
  | MStatus _, Ok _ => 9 | MStatus _, _ => 10 | MLatestBlock _, Ok _ => 11 | MLatestBlock _, _ => 12
  end%nat.
Definition histogram (n : nat) (l : list nat) : list nat := map (fun b => length (filter (Nat.eqb b) l)) (seq 0 n).
Definition magg_eval (cs : list magg_case) : list nat * list nat * list nat :=
  (index_where (fun c => negb (magg_agrees c)) cs,
   index_where (fun c => negb (c08_spec_ok c)) cs,
   histogram 13 (map magg_branch cs)).
