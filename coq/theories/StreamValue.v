(* StreamValue.v — llo/stream_value.go: the three stream value kinds and their binary form.
   (Text forms live in TextForms.v.) *)
From DS Require Export Decimal Wire.

Inductive sval :=
| SDec (d : dec)
| SQuote (bid bm ask : dec)
| STsv (at_ns : Z) (inner : sval).

(* LLOStreamValue_Type *)
Definition sv_type (v : sval) : Z := match v with SDec _ => 0 | SQuote _ _ _ => 1 | STsv _ _ => 2 end.

Fixpoint sval_eqb (a b : sval) : bool :=
  match a, b with
  | SDec x, SDec y => dec_eqb x y
  | SQuote a1 a2 a3, SQuote b1 b2 b3 => dec_eqb a1 b1 && dec_eqb a2 b2 && dec_eqb a3 b3
  | STsv t x, STsv u y => (t =? u) && sval_eqb x y
  | _, _ => false
  end.

(* Quote.IsValid: Bid.Cmp(Benchmark) <= 0 && Benchmark.Cmp(Ask) <= 0 *)
Definition cmp_le0 (c : comparison) : bool := match c with Gt => false | _ => true end.
Definition cmp_lt0 (c : comparison) : bool := match c with Lt => true | _ => false end.
Definition quote_valid (bid bm ask : dec) : bool :=
  cmp_le0 (dec_cmp bid bm) && cmp_le0 (dec_cmp bm ask).

(* ---- binary form (MarshalBinary) ---- *)
Fixpoint sval_marshal (v : sval) : bytes :=
  match v with
  | SDec d => dec_marshal d
  | SQuote bid bm ask => f_bytes 1 (dec_marshal bid) ++ f_bytes 2 (dec_marshal bm) ++ f_bytes 3 (dec_marshal ask)
  | STsv t inner =>
      f_varint 1 t ++ f_msg 2 (f_varint 1 (sv_type inner) ++ f_bytes 2 (sval_marshal inner))
  end.

(* the LLOStreamValue message {type = 1; value = 2} *)
Definition parse_lsv (body : bytes) : option (Z * bytes) :=
  match parse_fields body with
  | Some fs => Some (last_varint 1 fs mod 2 ^ 32, last_bytes 2 fs)
  | None => None
  end.

(* UnmarshalProtoStreamValue(&LLOStreamValue{Type: t, Value: data}); enc = None models a nil message.
   Recursion on explicit fuel (each level consumes at least one byte). *)
Fixpoint sval_unmarshal_fuel (fuel : nat) (enc : option (Z * bytes)) : res sval :=
  match fuel with
  | O => Err EOther
  | S k =>
      match enc with
      | None => Err ENil
      | Some (t, data) =>
          if t =? 0 then d <- dec_unmarshal data ;; Ok (SDec d)
          else if t =? 1 then
            match parse_fields data with
            | None => Err EMalformed
            | Some fs =>
                bid <- dec_unmarshal (last_bytes 1 fs) ;;
                bm <- dec_unmarshal (last_bytes 2 fs) ;;
                ask <- dec_unmarshal (last_bytes 3 fs) ;;
                Ok (SQuote bid bm ask)
            end
          else if t =? 2 then
            match parse_fields data with
            | None => Err EMalformed
            | Some fs =>
                let at_ns := last_varint 1 fs in
                match merged_msg 2 fs with
                | None => Err ENil
                | Some body =>
                    match parse_lsv body with
                    | None => Err EMalformed
                    | Some (t1, v1) =>
                        (* depth guard added by the D7 repair: look one level further, never recurse deeper *)
                        let too_deep :=
                          if t1 =? 2 then
                            match parse_fields v1 with
                            | None => Some EMalformed
                            | Some fs1 =>
                                match merged_msg 2 fs1 with
                                | None => None
                                | Some body2 =>
                                    match parse_lsv body2 with
                                    | None => Some EMalformed
                                    | Some (t2, _) => if t2 =? 2 then Some EInvalid else None
                                    end
                                end
                            end
                          else None in
                        match too_deep with
                        | Some e => Err e
                        | None => inner <- sval_unmarshal_fuel k (Some (t1, v1)) ;; Ok (STsv at_ns inner)
                        end
                    end
                end
            end
          else Err EInvalidType
      end
  end.
Definition sval_unmarshal (t : Z) (data : bytes) : res sval :=
  sval_unmarshal_fuel (S (length data)) (Some (t, data)).

Fixpoint sval_wf (v : sval) : bool :=
  match v with
  | SDec d => dec_wf d
  | SQuote a b c => dec_wf a && dec_wf b && dec_wf c
  | STsv t i => (0 <=? t) && (t <? 2 ^ 64) && sval_wf i
  end.
Fixpoint sval_depth (v : sval) : nat := match v with STsv _ i => S (sval_depth i) | _ => O end.
