(* Wire.v — protobuf wire format as produced by google.golang.org/protobuf for proto3 messages
   without maps: varints, tags, length-delimited fields; and a total parser into raw fields. *)
From DS Require Export Base.

(* base-128 little-endian varint of a non-negative integer *)
Fixpoint varint_fuel (fuel : nat) (v : Z) : bytes :=
  match fuel with
  | O => [v mod 128]
  | S k => if v <? 128 then [v] else (128 + v mod 128) :: varint_fuel k (v / 128)
  end.
Definition varint (v : Z) : bytes := varint_fuel (Z.to_nat (Z.log2 v) / 7) v.

Definition tag (field wt : Z) : bytes := varint (field * 8 + wt).
(* proto3 implicit presence: zero / empty scalars are not emitted *)
Definition f_varint (field v : Z) : bytes := if v =? 0 then [] else tag field 0 ++ varint v.
Definition f_bytes (field : Z) (bs : bytes) : bytes :=
  match bs with [] => [] | _ => tag field 2 ++ varint (Z.of_nat (length bs)) ++ bs end.
(* an embedded message that is present (non-nil pointer) is emitted even when empty *)
Definition f_msg (field : Z) (body : bytes) : bytes := tag field 2 ++ varint (Z.of_nat (length body)) ++ body.
Definition f_msg_opt (field : Z) (body : option bytes) : bytes :=
  match body with Some b => f_msg field b | None => [] end.

(* ---- parser ---- *)
(* returns (value, rest); at most 10 bytes as in the Go implementation *)
Fixpoint parse_varint_fuel (fuel : nat) (bs : bytes) (shift : Z) (acc : Z) : option (Z * bytes) :=
  match fuel with
  | O => None
  | S k => match bs with
           | [] => None
           | b :: r => let acc' := acc + (b mod 128) * 2 ^ shift in
                       if b <? 128 then
                         (* the tenth byte may only carry bit 63: anything above overflows 64 bits and is rejected *)
                         (if (shift =? 63) && (2 <=? b) then None else Some (acc', r))
                       else parse_varint_fuel k r (shift + 7) acc'
           end
  end.
Definition parse_varint (bs : bytes) : option (Z * bytes) :=
  match parse_varint_fuel 10 bs 0 0 with
  | Some (v, r) => Some (v mod 2 ^ 64, r)
  | None => None
  end.

Inductive rawval := RVarint (v : Z) | RBytes (b : bytes) | RFixed64 (b : bytes) | RFixed32 (b : bytes).
Definition rawfield := (Z * rawval)%type.

(* a group (wire types 3 = start, 4 = end): protobuf-go skips a well-formed group as an unknown field — also when the
   field number is a known non-group field (wrong wire type) — and rejects an unterminated group, an end-group with
   another field number, and nesting deeper than protowire.DefaultRecursionLimit.  skip_group consumes the fields of the
   group `fld` whose start tag has just been read and returns what follows its end tag; `depth` = levels still allowed *)
Fixpoint skip_group (fuel : nat) (depth : Z) (fld : Z) (bs : bytes) : option bytes :=
  match fuel with
  | O => None
  | S k =>
      if depth <? 0 then None else
      match parse_varint bs with
      | None => None
      | Some (t, r) =>
          let field := t / 8 in
          let wt := t mod 8 in
          if (field <? 1) || (2 ^ 29 <=? field) then None
          else if wt =? 4 then (if field =? fld then Some r else None)
          else if wt =? 0 then match parse_varint r with Some (_, r') => skip_group k depth fld r' | None => None end
          else if wt =? 2 then
            match parse_varint r with
            | Some (n, r') => if Z.of_nat (length r') <? n then None else skip_group k depth fld (skipn (Z.to_nat n) r')
            | None => None
            end
          else if wt =? 1 then (if (length r <? 8)%nat then None else skip_group k depth fld (skipn 8 r))
          else if wt =? 5 then (if (length r <? 4)%nat then None else skip_group k depth fld (skipn 4 r))
          else if wt =? 3 then match skip_group k (depth - 1) field r with Some r' => skip_group k depth fld r' | None => None end
          else None
      end
  end.
Definition group_depth_limit : Z := 10000.

Fixpoint parse_fields_fuel (fuel : nat) (bs : bytes) : option (list rawfield) :=
  match fuel with
  | O => None
  | S k =>
      match bs with
      | [] => Some []
      | _ =>
          match parse_varint bs with
          | None => None
          | Some (t, r) =>
              let field := t / 8 in
              let wt := t mod 8 in
              if (field <? 1) || (2 ^ 29 <=? field) then None
              else if wt =? 0 then
                match parse_varint r with
                | Some (v, r') => option_map (cons (field, RVarint v)) (parse_fields_fuel k r')
                | None => None
                end
              else if wt =? 2 then
                match parse_varint r with
                | Some (n, r') =>
                    if Z.of_nat (length r') <? n then None
                    else option_map (cons (field, RBytes (firstn (Z.to_nat n) r')))
                                    (parse_fields_fuel k (skipn (Z.to_nat n) r'))
                | None => None
                end
              else if wt =? 1 then
                if (length r <? 8)%nat then None
                else option_map (cons (field, RFixed64 (firstn 8 r))) (parse_fields_fuel k (skipn 8 r))
              else if wt =? 5 then
                if (length r <? 4)%nat then None
                else option_map (cons (field, RFixed32 (firstn 4 r))) (parse_fields_fuel k (skipn 4 r))
              else if wt =? 3 then
                match skip_group k group_depth_limit field r with     (* unknown (or wrong-typed) field: skipped *)
                | Some r' => parse_fields_fuel k r'
                | None => None
                end
              else None   (* a stray end-group (4), and wire types 6, 7: invalid *)
          end
      end
  end.
Definition parse_fields (bs : bytes) : option (list rawfield) := parse_fields_fuel (S (length bs)) bs.

(* field accessors with protobuf merge semantics: last scalar wins; a wrong wire type for a known
   field is treated as an unknown field (skipped) *)
Definition last_varint (field : Z) (fs : list rawfield) : Z :=
  fold_left (fun acc f => match f with (k, RVarint v) => if k =? field then v else acc | _ => acc end) fs 0.
Definition last_bytes (field : Z) (fs : list rawfield) : bytes :=
  fold_left (fun acc f => match f with (k, RBytes b) => if k =? field then b else acc | _ => acc end) fs [].
(* embedded message: occurrences are merged = their bytes are concatenated *)
Definition merged_msg (field : Z) (fs : list rawfield) : option bytes :=
  fold_left (fun acc f => match f with
                          | (k, RBytes b) => if k =? field then Some (match acc with Some a => a ++ b | None => b end) else acc
                          | _ => acc end) fs None.
Definition all_bytes (field : Z) (fs : list rawfield) : list bytes :=
  flat_map (fun f => match f with (k, RBytes b) => if k =? field then [b] else [] | _ => [] end) fs.
