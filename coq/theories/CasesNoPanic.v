(* CasesNoPanic.v — evaluation of the `nopanic` projection (C11): result classes of the entry points under recover(). *)
From DS Require Import Base.

Inductive np_case := NP (entry : Z) (out : res unit) (garbage_ignored : bool).
Definition np_ok (c : np_case) : bool := match c with NP _ o ig => negb (is_panic o) && ig end.
Definition np_entry (c : np_case) : Z := match c with NP e _ _ => e end.
(* result: no model disagreement list (implementation-only projection); C11 failures; per-entry counts then panics *)
Definition np_eval (cs : list np_case) :=
  (@nil nat, index_where (fun c => negb (np_ok c)) cs,
   map (fun e => length (filter (fun c => np_entry c =? e) cs)) [0; 1; 2; 3; 4; 5; 6] ++
   [length (filter (fun c => match c with NP _ o _ => is_panic o end) cs)]).
