(* CasesHistory.v — evaluation of the `history` projection: chained rounds of one or two LLO
   protocol instances.  For every round the model's outcome step and reports are computed FROM THE
   IMPLEMENTATION'S OWN previous outcome and compared with what the implementation produced; the
   property predicates (C02 timestamp, C03, C04, C05, C06, C14, C18) are evaluated on the
   implementation's outcomes and Report structs. *)
From stdpp Require Import gmap.
From DS Require Import Base Decimal StreamValue Sort Aggregators RepoConstants Outcome Observe OutcomeCodec PluginOutcome ObservationCodec PluginOutcomeBytes.
Open Scope Z_scope.

Inductive rep_kind := RepNone | RepOk | RepErr | RepPanic.

Record round := {
  rd_inst : nat;
  rd_seq : Z;
  rd_prev : option outcome;                          (* hand-built previous outcome, if any *)
  rd_target : gmap Z chandef;                        (* ChannelDefinitionCache of correct nodes *)
  rd_scripted : bool;                                (* correct observers' observations are scripted (directed histories): no vote check *)
  rd_retire : bool;                                  (* ShouldRetireCache of correct nodes *)
  rd_aos : list (option observation * bool);         (* validated observations as decoded by the implementation; honest? *)
  rd_valid : list (bool * bool);                     (* per observer: (honest?, accepted by ValidateObservation?) *)
  rd_refused : bool;                                 (* a correct node's Observation returned an error *)
  rd_out : res outcome;                              (* Plugin.Outcome, decoded by the implementation's codec *)
  rd_bytes : option (list Z * list Z);               (* (previous outcome bytes, bytes returned by Plugin.Outcome), small rounds only *)
  (* wire level: the observation bytes handed to Outcome (in order) and what the retirement-report cache answered for
     every attestation occurring in them; kept for small rounds only *)
  rd_wire : option (list (list Z) * list (list Z * option (gmap Z Z)));
  (* the remaining callbacks: ObservationQuorum on the observations handed to Outcome; ShouldAcceptAttestedReport and
     ShouldTransmitAcceptedReport on every report of the round (conjunction) *)
  rd_callbacks : bool * bool;
  rd_rep : rep_kind;                                 (* Plugin.Reports *)
  rd_retirement : option (gmap Z Z);
  rd_reports : list report }.

Record hist_case := {
  hc_cfgs : list cfg;
  hc_hashes : list ((Z * chandef) * list Z);         (* MakeChannelHash of every voted (id, definition) *)
  hc_rejected : bool;                                (* the plugin factory refused one of the configurations: no rounds *)
  hc_rounds : list round }.

Global Instance bigint_eq_dec : EqDecision bigint. Proof. solve_decision. Defined.
Global Instance dec_eq_dec : EqDecision dec. Proof. solve_decision. Defined.
Global Instance sval_eq_dec : EqDecision sval.
Proof.
  intros a. induction a as [d|bid bm ask|t i IH]; intros [d'|bid' bm' ask'|t' i']; try (right; congruence).
  - destruct (decide (d = d')); [left|right]; congruence.
  - destruct (decide (bid = bid')), (decide (bm = bm')), (decide (ask = ask')); try (right; congruence). left; congruence.
  - destruct (decide (t = t')), (IH i'); try (right; congruence). left; congruence.
Defined.
Global Instance report_eq_dec : EqDecision report. Proof. solve_decision. Defined.

Definition hash_table (tbl : list ((Z * chandef) * list Z)) (c : Z) (d : chandef) : list Z :=
  match find (fun e => bool_decide (fst e = (c, d))) tbl with Some e => snd e | None => [] end.

(* what the outcome codecs decode from an empty byte string (no outcome committed yet) *)
Definition empty_outcome : outcome := {| o_stage := OtherStage []; o_ts := 0; o_defs := ∅; o_va := ∅; o_aggs := ∅ |}.
Definition default_cfg : cfg := {| c_f := 0; c_pver := 1; c_interval := 1; c_has_pred := false |}.

(* observations as the wire-level model decodes them vs as the implementation decoded them (removal votes as a set) *)
Global Instance attest_eq_dec : EqDecision attest. Proof. solve_decision. Defined.
Definition obs_eqb (a b : observation) : bool :=
  bool_decide (ob_att a = ob_att b) && Bool.eqb (ob_retire a) (ob_retire b) && (ob_ts a =? ob_ts b) &&
  bool_decide ((list_to_set (ob_removes a) : gset Z) = list_to_set (ob_removes b)) &&
  (length (ob_removes a) =? length (ob_removes b))%nat &&
  bool_decide (ob_updates a = ob_updates b) && bool_decide (ob_values a = ob_values b).
Fixpoint obs_list_eqb (a b : list (option observation)) : bool :=
  match a, b with
  | [], [] => true
  | Some x :: a', Some y :: b' => obs_eqb x y && obs_list_eqb a' b'
  | None :: a', None :: b' => obs_list_eqb a' b'
  | _, _ => false
  end.

(* ---- agreement ---- *)
Fixpoint sval_eqv (a b : sval) : bool :=
  match a, b with
  | SDec x, SDec y => deqvb x y
  | SQuote a1 a2 a3, SQuote b1 b2 b3 => deqvb a1 b1 && deqvb a2 b2 && deqvb a3 b3
  | STsv t x, STsv u y => (t =? u) && sval_eqv x y
  | _, _ => false
  end.
Definition aggs_eqv (a b : gmap (Z * Z) sval) : bool :=
  bool_decide (dom a = dom b) &&
  forallb (fun kv => match b !! fst kv with Some v => sval_eqv (snd kv) v | None => false end) (map_to_list a).
Definition outcome_agrees (exact : bool) (m i : outcome) : bool :=
  bool_decide (o_stage m = o_stage i) && (o_ts m =? o_ts i) && bool_decide (o_defs m = o_defs i) &&
  bool_decide (o_va m = o_va i) &&
  (if exact then bool_decide (o_aggs m = o_aggs i) else aggs_eqv (o_aggs m) (o_aggs i)).
Definition res_outcome_agrees (exact : bool) (m i : res outcome) : bool :=
  match m, i with
  | Ok a, Ok b => outcome_agrees exact a b
  | Err _, Err _ => true
  | Panic _, Panic _ => true
  | _, _ => false
  end.

(* ---- single-step predicates on the implementation's outcome ---- *)
Definition stage_rank (s : stage) : Z := match s with Staging => 0 | Production => 1 | Retired => 2 | OtherStage _ => 3 end.
Definition decodable (aos : list (option observation * bool)) : list (observation * bool) :=
  omap (fun p => match fst p with Some ob => Some (ob, snd p) | None => None end) aos.

(* C05 *)
Definition c05_step_ok (cf : cfg) (seq : Z) (prev next : outcome) : bool :=
  (if seq <=? 1 then bool_decide (o_stage next = (if c_has_pred cf then Staging else Production))
   else
     match o_stage prev with
     | OtherStage _ => true
     | _ => (stage_rank (o_stage prev) <=? stage_rank (o_stage next)) && (stage_rank (o_stage next) <=? 2)
     end &&
     (if bool_decide (o_stage prev = Retired) then
        bool_decide (o_stage next = Retired) && bool_decide (o_defs next = o_defs prev) &&
        forallb (fun kv => bool_decide (o_va next !! fst kv = Some (snd kv))) (map_to_list (o_va prev))
      else true)).

(* C06: votes counted by the specification over every decodable validated observation *)
Definition votes_remove (obs : list (observation * bool)) (c : Z) : nat :=
  length (filter (fun p => bool_decide (c ∈ ob_removes (fst p))) obs).
Definition votes_update (obs : list (observation * bool)) (c : Z) (d : chandef) : nat :=
  length (filter (fun p => bool_decide (ob_updates (fst p) !! c = Some d)) obs).
Definition votes_retire (obs : list (observation * bool)) : nat := length (filter (fun p => ob_retire (fst p)) obs).
Definition has_good_attest (obs : list (observation * bool)) : bool :=
  existsb (fun p => match ob_att (fst p) with GoodAttest _ => true | _ => false end) obs.
Definition all_keys (a b : gmap Z chandef) : list Z := remove_dups (map fst (map_to_list a) ++ map fst (map_to_list b)).

Definition c06_step_ok (cf : cfg) (seq : Z) (prev next : outcome) (aos : list (option observation * bool)) : bool :=
  if seq <=? 1 then true else
  let obs := decodable aos in
  let f := c_f cf in
  forallb (fun c =>
    if bool_decide (o_defs next !! c = o_defs prev !! c) then true
    else match o_defs next !! c with
         | None => (f <? votes_remove obs c)%nat
         | Some d => (f <? votes_update obs c d)%nat
         end && negb (bool_decide (o_stage next = Retired)) && negb (bool_decide (o_stage prev = Retired)))
    (all_keys (o_defs prev) (o_defs next)) &&
  (if bool_decide (o_stage next = o_stage prev) then true
   else match o_stage prev, o_stage next with
        | Staging, Production => has_good_attest obs && c_has_pred cf
        | Staging, Retired => has_good_attest obs && c_has_pred cf && (f <? votes_retire obs)%nat
        | Production, Retired => (f <? votes_retire obs)%nat
        | _, _ => false
        end).

(* C18 *)
Definition stream_count (obs : list (observation * bool)) (sid : Z) : nat :=
  length (filter (fun p => bool_decide (is_Some (ob_values (fst p) !! sid))) obs).
Definition c18_step_ok (cf : cfg) (seq : Z) (prev next : outcome) (aos : list (option observation * bool)) : bool :=
  if seq <=? 1 then true else
  let obs := decodable aos in
  let refs := referenced_pairs (o_defs next) in
  (* aggregates only for referenced pairs *)
  forallb (fun kv => bool_decide (fst kv ∈ refs)) (map_to_list (o_aggs next)) &&
  forallb (fun p =>
    match o_aggs prev !! p with
    | Some (STsv t0 i0) =>
        match o_aggs next !! p with
        | Some (STsv t1 _) => t0 <=? t1
        | Some _ => true          (* observers switched to a non-timestamped type *)
        | None => false           (* a timestamped aggregate never disappears while referenced *)
        end &&
        (* too few values for aggregation: carried forward unchanged *)
        (if (stream_count obs (fst p) <=? c_f cf)%nat then bool_decide (o_aggs next !! p = Some (STsv t0 i0)) else true)
    | _ => true
    end) refs.

(* C02: the outcome's observation timestamp *)
Definition accepted_tagged (cf : cfg) (aos : list (option observation * bool)) : list (Z * bool) :=
  match accept_observations (c_has_pred cf) (map fst aos) with
  | Ok (_, acc) =>
      (* tags follow the accepted observations: recompute acceptance position-wise *)
      let fix go (rr : bool) (l : list (option observation * bool)) : list (Z * bool) :=
        match l with
        | [] => []
        | (None, _) :: r => go rr r
        | (Some ob, hn) :: r =>
            match ob_att ob, rr with
            | NoAttest, _ => (ob_ts ob, hn) :: go rr r
            | _, true => (ob_ts ob, hn) :: go rr r
            | BadAttest, false => go rr r
            | GoodAttest _, false => (ob_ts ob, hn) :: go true r
            end
        end in go false aos
  | _ => []
  end.
Definition c02_ts_ok (cf : cfg) (seq : Z) (next : outcome) (aos : list (option observation * bool)) : bool :=
  if seq <=? 1 then true else
  let tl := accepted_tagged cf aos in
  let h := map fst (filter snd tl) in
  let nb := length (filter (fun p => negb (snd p)) tl) in
  if (nb <? length h)%nat
  then existsb (fun lo => lo <=? o_ts next) h && existsb (fun hi => o_ts next <=? hi) h
  else true.

(* the accepted observations themselves, tagged (same acceptance rule as above) *)
Definition accepted_obs_tagged (cf : cfg) (aos : list (option observation * bool)) : list (observation * bool) :=
  match accept_observations (c_has_pred cf) (map fst aos) with
  | Ok (_, acc) =>
      let fix go (rr : bool) (l : list (option observation * bool)) : list (observation * bool) :=
        match l with
        | [] => []
        | (None, _) :: r => go rr r
        | (Some ob, hn) :: r =>
            match ob_att ob, rr with
            | NoAttest, _ => (ob, hn) :: go rr r
            | _, true => (ob, hn) :: go rr r
            | BadAttest, false => go rr r
            | GoodAttest _, false => (ob, hn) :: go true r
            end
        end in go false aos
  | _ => []
  end.
(* C02 on the outcome the implementation committed: a Decimal held for a (stream, median) pair lies between two Decimals
   reported by correct observers of this round, whenever all the correct observers' present values for the stream are
   Decimals and outnumber the faulty observers' present values (C02_outcome_median_in_honest_range on the real outcome) *)
Definition c02_vals_ok (cf : cfg) (seq : Z) (next : outcome) (aos : list (option observation * bool)) : bool :=
  if seq <=? 1 then true else
  let tl := accepted_obs_tagged cf aos in
  forallb (fun e : (Z * Z) * sval =>
    let '((sid, agg), v) := e in
    match v with
    | SDec d =>
        if agg =? 1 then
          let hv := flat_map (fun p : observation * bool => if snd p then match ob_values (fst p) !! sid with Some x => [x] | None => [] end else []) tl in
          let nf := length (filter (fun p : observation * bool => negb (snd p) && match ob_values (fst p) !! sid with Some _ => true | None => false end) tl) in
          let hd := flat_map (fun x => match x with SDec y => [y] | _ => [] end) hv in
          if (length hd =? length hv)%nat && (nf <? length hv)%nat
          then existsb (fun lo => dleb lo d) hd && existsb (fun hi => dleb d hi) hd
          else true
        else true
    | _ => true
    end) (map_to_list (o_aggs next)).

(* ---- history-level state carried along the rounds (per instance) ---- *)
Record inst_state := {
  is_cur : option outcome;                 (* the implementation's last committed outcome *)
  is_last : gmap Z Z;                      (* C03: end (observation timestamp) of the last report per channel, chain not broken *)
  is_adopted : option (gmap Z Z);          (* C04: validity starts adopted at promotion, entries still awaiting a first report *)
  is_conv : option (gmap Z chandef * nat); (* C14: target and number of rounds still allowed until convergence *)
}.
Definition is_init : inst_state := {| is_cur := None; is_last := ∅; is_adopted := None; is_conv := None |}.

Record acc := {
  a_states : list inst_state;
  a_pred_last : gmap Z Z;                  (* C04: end of P's last channel report per channel (truncated), chain intact *)
  a_mismatch : bool; a_c02 : bool; a_c03 : bool; a_c04 : bool; a_c05 : bool; a_c06 : bool; a_c14 : bool; a_c18 : bool;
  a_rounds : nat; a_reports : nat; a_promotions : nat; a_retirements : nat; a_errors : nat }.

Definition trunc_ts (pver : Z) (t : Z) : Z := if pver =? 0 then t / ns_per_s * ns_per_s else t.

Definition nth_state (l : list inst_state) (i : nat) : inst_state := nth i l is_init.
Fixpoint set_nth {A} (l : list A) (i : nat) (x : A) : list A :=
  match l, i with
  | [], _ => []
  | _ :: r, O => x :: r
  | y :: r, S k => y :: set_nth r k x
  end.

(* C03 on one round's reports *)
Definition c03_reports_ok (pver : Z) (last : gmap Z Z) (reps : list report) : bool :=
  forallb (fun r =>
    (r_va r <? r_ts r) &&
    (if (pver =? 0) || is_seconds_resolution (cd_fmt (r_def r)) then r_va r / ns_per_s <? r_ts r / ns_per_s else true) &&
    match last !! r_chan r with Some t => r_va r =? trunc_ts pver t | None => true end) reps.

(* C14: removals / updates still needed *)
Definition to_remove (cur target : gmap Z chandef) : nat := length (filter (fun kv => bool_decide (target !! fst kv = None)) (map_to_list cur)).
Definition to_update (cur target : gmap Z chandef) : nat := length (filter (fun kv => negb (bool_decide (cur !! fst kv = Some (snd kv)))) (map_to_list target)).
Definition rounds_needed (cur target : gmap Z chandef) : nat :=
  let m := Nat.max (to_remove cur target) (to_update cur target) in
  let l := Z.to_nat MaxObservationUpdateChannelDefinitionsLength in
  ((m + l - 1) / l)%nat.
Definition unique_streams (defs : gmap Z chandef) : nat :=
  length (remove_dups (flat_map (fun kv => map fst (cd_streams (snd kv))) (map_to_list defs))).

Definition eval_round (h : Z -> chandef -> list Z) (cfgs : list cfg) (a : acc) (rd : round) : acc :=
  let i := rd_inst rd in
  let cf := nth i cfgs default_cfg in
  let st := nth_state (a_states a) i in
  let seq := rd_seq rd in
  let prev := match rd_prev rd with Some p => p | None => default empty_outcome (is_cur st) end in
  let hand_built := match rd_prev rd with Some _ => true | None => false end in
  let aos := map fst (rd_aos rd) in
  let n_dec := length (decodable (rd_aos rd)) in
  let model := outcome_step h cf seq prev aos in
  let exact := (n_dec <=? 12)%nat in
  let agree := res_outcome_agrees exact model (rd_out rd) in
  (* byte level: the model of Plugin.Outcome (bytes in, bytes out) predicts exactly the bytes Go returned *)
  let bytes_agree := match rd_bytes rd with
                     | Some (pb, ob) => if exact then match plugin_outcome h cf seq pb aos with Ok b => bool_decide (b = ob) | _ => false end
                                        else true
                     | None => true end in
  (* wire level: decoding the observation bytes (and asking the cache) gives the observations the implementation
     decoded, and the wire-to-wire model of Plugin.Outcome predicts exactly the bytes Go returned *)
  let wire_agree := match rd_wire rd with
                    | Some (obs_bytes, tbl) =>
                        let chk := check_of_table tbl in
                        obs_list_eqb (map (obs_of_bytes chk) obs_bytes) aos &&
                        match rd_bytes rd with
                        | Some (pb, ob) => if exact then match plugin_outcome_bytes h chk cf seq pb obs_bytes with Ok b => bool_decide (b = ob) | _ => false end
                                           else true
                        | None => true end
                    | None => true end in
  let callbacks_agree := Bool.eqb (fst (rd_callbacks rd)) (2 * c_f cf + 1 <=? length (rd_aos rd))%nat && snd (rd_callbacks rd) in
  let bytes_agree := bytes_agree && wire_agree && callbacks_agree in
  match rd_out rd with
  | Ok next =>
      let obs := decodable (rd_aos rd) in
      (* reports *)
      let '(m_ret, m_reps) := reports_of cf seq next in
      let rep_agree := match rd_rep rd with
                       | RepOk => bool_decide (m_ret = rd_retirement rd) && bool_decide (m_reps = rd_reports rd)
                       | _ => false end in
      let promoted := (seq >? 1) && bool_decide (o_stage prev = Staging) && negb (bool_decide (o_stage next = Staging)) in
      let removed_all := if seq <=? 1 then [] else removed_ids (c_f cf) (match accept_observations (c_has_pred cf) aos with Ok (_, l) => l | _ => [] end) in
      (* "voted out" excuses a broken chain / handover only for a removal the protocol intends: in a round whose correct
         observations come from the real Plugin.Observation and with at most f faulty observers, more than f removal
         votes need a correct voter, and a correct node only votes to remove a channel that is DEFINED in the previous
         outcome; a validity start that disappears any other way is a violation, not an excuse *)
      let faulty_n := length (filter (fun p : observation * bool => negb (snd p)) (decodable (rd_aos rd))) in
      let removed := if hand_built || rd_scripted rd || (c_f cf <? faulty_n)%nat then removed_all
                     else filter (fun c => bool_decide (is_Some (o_defs prev !! c))) removed_all in
      (* C03 *)
      let last0 := if promoted then ∅ else foldr delete (is_last st) removed in
      let c03 := c03_reports_ok (c_pver cf) last0 (rd_reports rd) in
      let last1 := fold_left (fun m r => <[r_chan r := r_ts r]> m) (rd_reports rd) last0 in
      (* C04 *)
      (* a channel voted out (see `removed` above for which removals count) loses its adopted validity start, also when
         the votes arrive in the promotion round itself (C04_handover_start: ~ voted_out at the promotion event) *)
      let adopted0 : option (gmap Z Z) :=
        option_map (fun m => foldr delete m removed)
          (if promoted then (match find (fun p => match ob_att (fst p) with GoodAttest _ => true | _ => false end) obs with
                             | Some (ob, _) => match ob_att ob with GoodAttest va => Some va | _ => None end
                             | None => None end)
           else is_adopted st) in
      let c04_succ :=
        (* before promotion only specimen reports; the first non-specimen report of an adopted channel starts there *)
        forallb (fun r =>
          (if bool_decide (o_stage next = Production) then negb (r_specimen r) else r_specimen r) &&
          match adopted0 with
          | Some m => match m !! r_chan r with Some v => (r_specimen r) || (r_va r =? v) | None => true end
          | None => true
          end) (rd_reports rd) in
      let adopted1 := option_map (fun m => fold_left (fun m r => delete (r_chan r) m) (rd_reports rd) m) adopted0 in
      (* P side: a retired instance emits exactly the retirement report, carrying where its last reports ended *)
      let pred_last0 := if (i =? 0)%nat then foldr delete (a_pred_last a) removed else a_pred_last a in
      let c04_pred :=
        if bool_decide (o_stage next = Retired) then
          bool_decide (rd_reports rd = []) &&
          match rd_retirement rd with
          | Some va => bool_decide (va = o_va next) &&
                       (if (i =? 0)%nat && negb hand_built
                        then forallb (fun kv => match va !! fst kv with Some v => v =? trunc_ts (c_pver cf) (snd kv) | None => true end)
                                     (map_to_list (if bool_decide (o_stage prev = Retired) then pred_last0
                                                   else (* the retiring round: the previous outcome's reports count *) pred_last0))
                        else true)
          | None => seq <=? 1
          end
        else match rd_retirement rd with None => true | Some _ => false end in
      let pred_last1 := if (i =? 0)%nat && negb hand_built
                        then fold_left (fun m r => if r_specimen r then m else <[r_chan r := r_ts r]> m) (rd_reports rd) pred_last0
                        else a_pred_last a in
      (* C14 *)
      let honest_n := length (filter (fun p => snd p) obs) in
      let settled := bool_decide (option_map fst (is_conv st) = Some (rd_target rd)) in
      let retired_now := bool_decide (o_stage prev = Retired) || bool_decide (o_stage next = Retired) in
      let target_ok := verify_defs (fun _ => true) (rd_target rd) && (unique_streams (o_defs prev ∪ rd_target rd) <=? Z.to_nat MaxObservationStreamValuesLength)%nat in
      let budget : option nat :=
        if hand_built || rd_scripted rd || retired_now || negb target_ok || (honest_n <=? c_f cf)%nat || (seq <=? 1) then None
        else if settled then option_map (fun p => Nat.pred (snd p)) (is_conv st)
        else Some (Nat.pred (rounds_needed (o_defs prev) (rd_target rd))) in
      let c14_conv := match budget with
                      | Some O => bool_decide (o_defs next = rd_target rd)
                      | _ => true end in
      let c14_cap := (size (o_defs next) <=? Z.to_nat MaxOutcomeChannelDefinitionsLength)%nat in
      let c14_votes :=
        (* every correct node's observation is accepted, carries exactly the model's votes, and no correct node refuses *)
        forallb (fun p : bool * bool => negb (fst p) || snd p) (rd_valid rd) &&
        (if hand_built then true else negb (rd_refused rd)) &&
        (if (seq <=? 1) || hand_built || rd_scripted rd then true else
         forallb (fun p : observation * bool => if snd p then
                             let '(rm, up) := honest_votes (fun _ => true) prev (rd_target rd) in
                             bool_decide (list_to_set (ob_removes (fst p)) = (list_to_set rm : gset Z)) &&
                             bool_decide (ob_updates (fst p) = up)
                           else true) obs) in
      let conv1 := match budget with
                   | Some O => Some (rd_target rd, O)
                   | Some n => Some (rd_target rd, n)
                   | None => None end in
      let st' := {| is_cur := if hand_built then is_cur st else Some next;
                    is_last := if hand_built then is_last st else last1;
                    is_adopted := if hand_built then is_adopted st else adopted1;
                    is_conv := if hand_built then is_conv st else conv1 |} in
      {| a_states := set_nth (a_states a) i st';
         a_pred_last := pred_last1;
         a_mismatch := a_mismatch a || negb agree || negb rep_agree || negb bytes_agree;
         a_c02 := a_c02 a || negb (c02_ts_ok cf seq next (rd_aos rd)) || negb (c02_vals_ok cf seq next (rd_aos rd));
         a_c03 := a_c03 a || (if hand_built then false else negb c03);
         a_c04 := a_c04 a || (if hand_built then false else negb (c04_succ && c04_pred));
         a_c05 := a_c05 a || negb (c05_step_ok cf seq prev next);
         a_c06 := a_c06 a || negb (c06_step_ok cf seq prev next (rd_aos rd));
         a_c14 := a_c14 a || negb (c14_conv && c14_cap && c14_votes);
         a_c18 := a_c18 a || negb (c18_step_ok cf seq prev next (rd_aos rd));
         a_rounds := S (a_rounds a); a_reports := (a_reports a + length (rd_reports rd))%nat;
         a_promotions := (a_promotions a + if promoted then 1 else 0)%nat;
         a_retirements := (a_retirements a + if bool_decide (o_stage next = Retired) && negb (bool_decide (o_stage prev = Retired)) then 1 else 0)%nat;
         a_errors := a_errors a |}
  | _ =>
      (* an erroring round commits nothing and emits nothing *)
      {| a_states := a_states a; a_pred_last := a_pred_last a;
         a_mismatch := a_mismatch a || negb agree || negb bytes_agree;
         a_c02 := a_c02 a; a_c03 := a_c03 a; a_c04 := a_c04 a; a_c05 := a_c05 a; a_c06 := a_c06 a;
         a_c14 := a_c14 a || (if hand_built then false else rd_refused rd && negb (is_panic (rd_out rd)) && false);
         a_c18 := a_c18 a;
         a_rounds := S (a_rounds a); a_reports := a_reports a; a_promotions := a_promotions a; a_retirements := a_retirements a;
         a_errors := S (a_errors a) |}
  end.

(* the configurations the model's decoder accepts: version 0 with interval 0, version 1 with interval >= 1 *)
Definition cfg_valid (cf : cfg) : bool :=
  if c_pver cf =? 0 then c_interval cf =? 0 else if c_pver cf =? 1 then 1 <=? c_interval cf else false.
Definition eval_hist (c : hist_case) : acc :=
  let h := hash_table (hc_hashes c) in
  let all_valid := forallb cfg_valid (hc_cfgs c) in
  let a :=
  fold_left (eval_round h (hc_cfgs c))
    (hc_rounds c)
    {| a_states := map (fun _ => is_init) (hc_cfgs c); a_pred_last := ∅;
       a_mismatch := false; a_c02 := false; a_c03 := false; a_c04 := false; a_c05 := false; a_c06 := false;
       a_c14 := false; a_c18 := false; a_rounds := O; a_reports := O; a_promotions := O; a_retirements := O; a_errors := O |} in
  (* the factory accepts a configuration exactly when it is valid (model agreement); an invalid configuration that is
     accepted is a C03 violation in itself: the window theorems are about accepted = valid configurations *)
  {| a_states := a_states a; a_pred_last := a_pred_last a;
     a_mismatch := a_mismatch a || negb (Bool.eqb (hc_rejected c) (negb all_valid));
     a_c02 := a_c02 a; a_c03 := a_c03 a || (negb all_valid && negb (hc_rejected c)); a_c04 := a_c04 a; a_c05 := a_c05 a;
     a_c06 := a_c06 a; a_c14 := a_c14 a; a_c18 := a_c18 a; a_rounds := a_rounds a; a_reports := a_reports a;
     a_promotions := a_promotions a; a_retirements := a_retirements a; a_errors := a_errors a |}.

(* result: mismatching histories; failing histories for C02, C03, C04, C05, C06, C14, C18; totals *)
Definition hist_eval (cs : list hist_case) :=
  let rs := map eval_hist cs in
  (index_where a_mismatch rs, index_where a_c02 rs, index_where a_c03 rs, index_where a_c04 rs,
   index_where a_c05 rs, index_where a_c06 rs, index_where a_c14 rs, index_where a_c18 rs,
   [sum_nat (map a_rounds rs); sum_nat (map a_reports rs); sum_nat (map a_promotions rs);
    sum_nat (map a_retirements rs); sum_nat (map a_errors rs);
    (* rounds whose Outcome bytes were compared with the byte-level model *)
    sum_nat (map (fun c => length (filter (fun rd => match rd_bytes rd with Some _ => (length (decodable (rd_aos rd)) <=? 12)%nat | None => false end) (hc_rounds c))) cs);
    (* rounds whose observation bytes were decoded by the model and compared *)
    sum_nat (map (fun c => length (filter (fun rd => match rd_wire rd with Some _ => true | None => false end) (hc_rounds c))) cs)]).

(* debugging aid: per round, which flags are raised after it *)
Definition flags (a : acc) := (a_mismatch a, a_c02 a, a_c03 a, a_c04 a, (a_c05 a, a_c06 a, a_c14 a, a_c18 a)).
Fixpoint trace_rounds (h : Z -> chandef -> list Z) (cfgs : list cfg) (a : acc) (rds : list round) (k : nat) :=
  match rds with
  | [] => []
  | rd :: r => let a' := eval_round h cfgs a rd in (k, flags a') :: trace_rounds h cfgs a' r (S k)
  end.
Definition hist_trace (c : hist_case) :=
  trace_rounds (hash_table (hc_hashes c)) (hc_cfgs c)
    {| a_states := map (fun _ => is_init) (hc_cfgs c); a_pred_last := ∅;
       a_mismatch := false; a_c02 := false; a_c03 := false; a_c04 := false; a_c05 := false; a_c06 := false;
       a_c14 := false; a_c18 := false; a_rounds := O; a_reports := O; a_promotions := O; a_retirements := O; a_errors := O |}
    (hc_rounds c) O.
(* the model's outcome for round k of a history, from the implementation's state *)
Fixpoint model_at (h : Z -> chandef -> list Z) (cfgs : list cfg) (a : acc) (rds : list round) (k : nat) :=
  match rds with
  | [] => None
  | rd :: r =>
      match k with
      | O => let i := rd_inst rd in let cf := nth i cfgs default_cfg in
             let st := nth_state (a_states a) i in
             let prev := match rd_prev rd with Some p => p | None => default empty_outcome (is_cur st) end in
             Some (prev, outcome_step h cf (rd_seq rd) prev (map fst (rd_aos rd)), rd_out rd, reports_of cf (rd_seq rd) (match rd_out rd with Ok o => o | _ => prev end), (rd_retirement rd, rd_reports rd))
      | S k' => model_at h cfgs (eval_round h cfgs a rd) r k'
      end
  end.
Definition hist_model_at (c : hist_case) (k : nat) :=
  model_at (hash_table (hc_hashes c)) (hc_cfgs c)
    {| a_states := map (fun _ => is_init) (hc_cfgs c); a_pred_last := ∅;
       a_mismatch := false; a_c02 := false; a_c03 := false; a_c04 := false; a_c05 := false; a_c06 := false;
       a_c14 := false; a_c18 := false; a_rounds := O; a_reports := O; a_promotions := O; a_retirements := O; a_errors := O |}
    (hc_rounds c) k.

(* printable views (gmaps shown as association lists) *)
Definition view_outcome (o : outcome) := (o_stage o, o_ts o, map_to_list (o_defs o), map_to_list (o_va o), map_to_list (o_aggs o)).
Definition view_res (r : res outcome) := match r with Ok o => Some (view_outcome o) | _ => None end.
Definition view_reports (p : option (gmap Z Z) * list report) := (option_map map_to_list (fst p), snd p).
Definition hist_view_at (c : hist_case) (k : nat) :=
  match hist_model_at c k with
  | Some (prev, m, i, mr, ir) => Some (view_outcome prev, (view_res m, view_res i), (view_reports mr, view_reports ir))
  | None => None
  end.
