(* CasesAgg.v — evaluation of the `agg` projection (llo.MedianAggregator / QuoteAggregator /
   ModeAggregator): model-vs-implementation agreement and the C02 / C15 predicates evaluated on
   the implementation's outputs with the generator's own honest/faulty tags. *)
From DS Require Import Base Decimal StreamValue Sort Aggregators.

Record agg_case := {
  ag_kind : Z;                              (* 0 median, 1 quote, 2 mode *)
  ag_f : nat;
  ag_vals : list (option sval * bool);      (* value, from a correct observer? *)
  ag_out : res (option sval);               (* implementation, on the values in this order *)
  ag_out_perm : res (option sval) }.        (* implementation, on a random permutation of the same values *)

Definition lift (r : res sval) : res (option sval) :=
  match r with Ok v => Ok (Some v) | Err e => Err e | Panic s => Panic s end.
Definition agg_model (c : agg_case) : res (option sval) :=
  let vs := map fst (ag_vals c) in
  if ag_kind c =? 0 then lift (median_agg vs (ag_f c))
  else if ag_kind c =? 1 then lift (quote_agg vs (ag_f c))
  else mode_agg vs (ag_f c).

(* numeric equality of stream values (representation of decimals ignored) *)
Fixpoint sval_eqv (a b : sval) : bool :=
  match a, b with
  | SDec x, SDec y => deqvb x y
  | SQuote a1 a2 a3, SQuote b1 b2 b3 => deqvb a1 b1 && deqvb a2 b2 && deqvb a3 b3
  | STsv t x, STsv u y => (t =? u) && sval_eqv x y
  | _, _ => false
  end.
Definition res_rel (rel : sval -> sval -> bool) (a b : res (option sval)) : bool :=
  match a, b with
  | Ok (Some x), Ok (Some y) => rel x y
  | Ok None, Ok None => true
  | Err _, Err _ => true
  | Panic _, Panic _ => true
  | _, _ => false
  end.
Definition n_present_t (tvs : list (option sval * bool)) : nat :=
  length (filter (fun p => match fst p with Some _ => true | None => false end) tvs).

(* exact below Go's insertion-sort threshold, numeric above it (pdqsort picks among equal keys) *)
Definition agg_agrees (c : agg_case) : bool :=
  if (n_present_t (ag_vals c) <=? 12)%nat || (ag_kind c =? 2)
  then res_rel sval_eqb (agg_model c) (ag_out c)
  else res_rel sval_eqv (agg_model c) (ag_out c).

(* ---- C02 predicate ---- *)
Definition honest_vals (tvs : list (option sval * bool)) : list sval :=
  flat_map (fun p => match p with (Some x, true) => [x] | _ => [] end) tvs.
Definition hpres_b (tvs : list (option sval * bool)) : nat := length (honest_vals tvs).
Definition fpres_b (tvs : list (option sval * bool)) : nat :=
  length (filter (fun p => match p with (Some _, false) => true | _ => false end) tvs).
Definition in_range_dec (d : dec) (ds : list dec) : bool :=
  existsb (fun lo => dleb lo d) ds && existsb (fun hi => dleb d hi) ds.
Definition in_range_Z (t : Z) (ts : list Z) : bool :=
  existsb (fun lo => lo <=? t) ts && existsb (fun hi => t <=? hi) ts.

Definition c02_spec_ok (c : agg_case) : bool :=
  let tvs := ag_vals c in
  let hv := honest_vals tvs in
  let maj := (fpres_b tvs <? hpres_b tvs)%nat in
  negb (is_panic (ag_out c)) &&
  (* at most f present values: never an aggregate *)
  (if (n_present_t tvs <=? ag_f c)%nat then is_err (ag_out c) else true) &&
  (* quote aggregator: a value is usable only if it is a Quote with bid <= benchmark <= ask; at most f usable: no aggregate *)
  (if (ag_kind c =? 1) &&
      (length (filter (fun p => match fst p with Some (SQuote a b k) => quote_valid a b k | _ => false end) tvs) <=? ag_f c)%nat
   then is_err (ag_out c) else true) &&
  (* the same multiset in another order gives the same numeric result *)
  res_rel sval_eqv (ag_out c) (ag_out_perm c) &&
  (if ag_kind c =? 0 then
     if maj && (forallb (fun x => sv_type x =? 0) hv || forallb (fun x => sv_type x =? 1) hv) then
       match ag_out c with
       | Ok (Some (SDec d)) =>
           in_range_dec d (flat_map (fun x => match x with SDec y => [y] | SQuote _ bm _ => [bm] | _ => [] end) hv)
       | Ok _ => false
       | _ => true
       end
     else if maj && forallb (fun x => match x with STsv _ (SDec _) => true | _ => false end) hv then
       match ag_out c with
       | Ok (Some (STsv t (SDec d))) =>
           in_range_Z t (flat_map (fun x => match x with STsv u _ => [u] | _ => [] end) hv) &&
           in_range_dec d (flat_map (fun x => match x with STsv _ (SDec y) => [y] | _ => [] end) hv)
       | Ok _ => false
       | _ => true
       end
     else true
   else if ag_kind c =? 1 then
     match ag_out c with
     | Ok (Some (SQuote bid bm ask)) =>
         (* ordered whenever a quote comes out; in range under the honesty hypotheses *)
         dleb bid bm && dleb bm ask &&
         (if maj && forallb (fun x => match x with SQuote a b k => quote_valid a b k | _ => false end) hv then
            in_range_dec bid (flat_map (fun x => match x with SQuote a _ _ => [a] | _ => [] end) hv) &&
            in_range_dec bm (flat_map (fun x => match x with SQuote _ b _ => [b] | _ => [] end) hv) &&
            in_range_dec ask (flat_map (fun x => match x with SQuote _ _ k => [k] | _ => [] end) hv)
          else true)
     | Ok _ => false
     | _ => true
     end
   else true).

(* ---- C15 predicate (specification side: counts by type and by serialised bytes) ---- *)
Definition present_vals (tvs : list (option sval * bool)) : list sval :=
  flat_map (fun p => match fst p with Some x => [x] | None => [] end) tvs.
Definition count_type (t : Z) (l : list sval) : nat := length (filter (fun x => sv_type x =? t) l).
Definition best_type (l : list sval) : Z :=
  let c0 := count_type 0 l in let c1 := count_type 1 l in let c2 := count_type 2 l in
  if (c1 <=? c0)%nat && (c2 <=? c0)%nat then 0 else if (c2 <=? c1)%nat then 1 else 2.
Definition count_same (v : sval) (l : list sval) : nat :=
  length (filter (fun x => (sv_type x =? sv_type v) && bytes_eqb (sval_marshal x) (sval_marshal v)) l).

Definition c15_spec_ok (c : agg_case) : bool :=
  let pv := present_vals (ag_vals c) in
  let bt := best_type pv in
  let bucket := filter (fun x => sv_type x =? bt) pv in
  negb (is_panic (ag_out c)) &&
  (* order independence: byte-exact *)
  res_rel sval_eqb (ag_out c) (ag_out_perm c) &&
  match ag_out c with
  | Ok (Some v) =>
      (sv_type v =? bt) && (ag_f c + 1 <=? count_same v pv)%nat &&
      (* with at most f faulty present values, a correct observer reported it *)
      (if (fpres_b (ag_vals c) <=? ag_f c)%nat
       then existsb (fun x => (sv_type x =? sv_type v) && bytes_eqb (sval_marshal x) (sval_marshal v)) (honest_vals (ag_vals c))
       else true) &&
      (* nothing of the chosen type is strictly more frequent *)
      forallb (fun x => (count_same x pv <=? count_same v pv)%nat) bucket
  | Ok None => false
  | Err _ => forallb (fun x => (count_same x pv <=? ag_f c)%nat) bucket
  | Panic _ => false
  end.

(* branch of the model reached: 0 error (too few), 1 plain median, 2 timestamped median, 3 quote,
   4 mode value, 5 mode error, 6 other error *)
Definition agg_branch (c : agg_case) : nat :=
  match agg_model c with
  | Ok (Some (SDec _)) => if ag_kind c =? 2 then 4%nat else 1%nat
  | Ok (Some (STsv _ _)) => if ag_kind c =? 2 then 4%nat else 2%nat
  | Ok (Some (SQuote _ _ _)) => if ag_kind c =? 2 then 4%nat else 3%nat
  | Ok None => 4%nat
  | Err ETooFew => if ag_kind c =? 2 then 5%nat else 0%nat
  | _ => 6%nat
  end.
Definition histogram (n : nat) (l : list nat) : list nat :=
  map (fun b => length (filter (Nat.eqb b) l)) (seq 0 n).

Definition agg_eval (spec : agg_case -> bool) (cs : list agg_case) : list nat * list nat * list nat :=
  (index_where (fun c => negb (agg_agrees c)) cs,
   index_where (fun c => negb (spec c)) cs,
   histogram 7 (map agg_branch cs)).
Definition agg_eval_c02 := agg_eval c02_spec_ok.
Definition agg_eval_c15 := agg_eval c15_spec_ok.
Definition agg_eval_all := agg_eval (fun c => c02_spec_ok c && (if ag_kind c =? 2 then c15_spec_ok c else true)).
