(* Outcome.v — the LLO plugin's consensus core on decoded structures:
   llo/plugin_outcome.go (outcome, decodeObservations, IsReportable, ReportableChannels,
   IsSecondsResolution, medianTimestamp), llo/plugin_reports.go (reports), and the effect of the
   outcome codec on the state (v0 keeps validity starts to whole seconds; encode failures).
   Go maps are std++ gmaps; every `range` over a map in the Go code is order-insensitive here by
   construction (see proofs/OutcomeOrder.v for the explicit-order variants). *)
From stdpp Require Import gmap.
From DS Require Import Base Decimal StreamValue Sort Aggregators RepoConstants.
Open Scope Z_scope.

Record chandef := { cd_fmt : Z; cd_streams : list (Z * Z); cd_opts : list Z }.
Global Instance chandef_eq_dec : EqDecision chandef. Proof. solve_decision. Defined.

Inductive stage := Staging | Production | Retired | OtherStage (s : list Z).
Global Instance stage_eq_dec : EqDecision stage. Proof. solve_decision. Defined.

Record outcome := {
  o_stage : stage;
  o_ts : Z;                               (* ObservationTimestampNanoseconds *)
  o_defs : gmap Z chandef;                (* ChannelDefinitions *)
  o_va : gmap Z Z;                        (* ValidAfterNanoseconds *)
  o_aggs : gmap (Z * Z) sval }.           (* StreamAggregates, flattened to (stream, aggregator) *)

(* AttestedPredecessorRetirement as judged by the (external) PredecessorRetirementReportCache:
   absent, present but rejected, or verified and decoded to the predecessor's validity starts
   (an empty map stands for the nil map a channel-less predecessor produces) *)
Inductive attest := NoAttest | BadAttest | GoodAttest (rr_va : gmap Z Z).

Record observation := {
  ob_att : attest;
  ob_retire : bool;
  ob_ts : Z;
  ob_removes : list Z;
  ob_updates : gmap Z chandef;
  ob_values : gmap Z sval }.

Record cfg := {
  c_f : nat;
  c_pver : Z;                             (* protocol version; also selects the outcome codec *)
  c_interval : Z;                         (* DefaultMinReportIntervalNanoseconds *)
  c_has_pred : bool }.                    (* PredecessorConfigDigest != nil *)

Definition fmt_evm_premium_legacy : Z := 1.
Definition fmt_json : Z := 2.
Definition fmt_evm_abi_unpacked : Z := 4.
Definition is_seconds_resolution (fmt : Z) : bool := (fmt =? fmt_evm_premium_legacy) || (fmt =? fmt_evm_abi_unpacked).

Definition ns_per_s : Z := 1000000000.

(* Outcome.IsReportable (after the B1 repair: overflow-free interval test) *)
Definition is_reportable (o : outcome) (c : Z) (pver interval : Z) : bool :=
  match o_stage o with
  | Retired => false
  | _ =>
      match o_defs o !! c, o_va o !! c with
      | Some cd, Some va =>
          let ts := o_ts o in
          (if 0 <? pver then negb ((ts <? va) || (ts - va <? interval)) else true) &&
          (if (pver =? 0) || is_seconds_resolution (cd_fmt cd)
           then negb (ts / ns_per_s <=? va / ns_per_s) else true)
      | _, _ => false
      end
  end.

(* ---- decodeObservations: which observations count ---- *)
(* None = undecodable observation. An attestation is only looked at until a valid one was found. *)
Definition accept_step (has_pred : bool) (st : res (option (gmap Z Z) * list observation)) (o : option observation)
  : res (option (gmap Z Z) * list observation) :=
  match st with
  | Ok (rr, acc) =>
      match o with
      | None => st
      | Some ob =>
          match ob_att ob, rr with
          | NoAttest, _ => Ok (rr, acc ++ [ob])
          | _, Some _ => Ok (rr, acc ++ [ob])
          | BadAttest, None => if has_pred then st else Panic 20   (* nil PredecessorConfigDigest dereferenced *)
          | GoodAttest va, None => if has_pred then Ok (Some va, acc ++ [ob]) else Panic 20
          end
      end
  | _ => st
  end.
Definition accept_observations (has_pred : bool) (aos : list (option observation)) :=
  fold_left (accept_step has_pred) aos (Ok (None, [])).

(* ---- votes ---- *)
Definition retire_votes (obs : list observation) : nat := length (filter ob_retire obs).
Definition remove_votes (obs : list observation) (c : Z) : nat :=
  length (filter (fun ob => bool_decide (c ∈ ob_removes ob)) obs).
Definition update_votes (obs : list observation) (c : Z) (d : chandef) : nat :=
  length (filter (fun ob => bool_decide (ob_updates ob !! c = Some d)) obs).
Definition removed_ids (f : nat) (obs : list observation) : list Z :=
  filter (fun c => (f <? remove_votes obs c)%nat) (remove_dups (flat_map ob_removes obs)).
Definition update_candidates (obs : list observation) : list (Z * chandef) :=
  remove_dups (flat_map (fun ob => map_to_list (ob_updates ob)) obs).

Section WithHash.
  (* MakeChannelHash: SHA-256 over id, format, streams, opts — an input of the model *)
  Context (h : Z -> chandef -> list Z).

  Fixpoint bytes_lt (a b : list Z) : bool :=
    match a, b with
    | [], [] => false | [], _ :: _ => true | _ :: _, [] => false
    | x :: a', y :: b' => if x <? y then true else if y <? x then false else bytes_lt a' b'
    end.
  (* sort.Slice(orderedHashes, (id, hash) ascending) — after the D1 repair *)
  Definition cand_less (a b : Z * chandef) : bool :=
    if fst a =? fst b then bytes_lt (h (fst a) (snd a)) (h (fst b) (snd b)) else fst a <? fst b.

  Definition apply_update (f : nat) (obs : list observation) (defs : gmap Z chandef) (cand : Z * chandef) : gmap Z chandef :=
    let '(c, d) := cand in
    if (update_votes obs c d <=? f)%nat then defs
    else match defs !! c with
         | Some _ => <[c := d]> defs
         | None => if MaxOutcomeChannelDefinitionsLength <=? Z.of_nat (size defs) then defs else <[c := d]> defs
         end.

  Definition new_defs (f : nat) (retired : bool) (prev : gmap Z chandef) (obs : list observation) : gmap Z chandef :=
    if retired then prev
    else
      let removed := removed_ids f obs in
      let defs1 := foldr delete prev removed in
      fold_left (apply_update f obs) (isort cand_less (update_candidates obs)) defs1.

  (* ---- stream aggregates ---- *)
  Definition stream_obs (obs : list observation) (sid : Z) : list (option sval) :=
    omap (fun ob => option_map Some (ob_values ob !! sid)) obs.

  Definition agg_fun (agg : Z) : option (list (option sval) -> nat -> res (option sval)) :=
    if agg =? 1 then Some (fun vs f => match median_agg vs f with Ok v => Ok (Some v) | Err e => Err e | Panic s => Panic s end)
    else if agg =? 2 then Some mode_agg
    else if agg =? 3 then Some (fun vs f => match quote_agg vs f with Ok v => Ok (Some v) | Err e => Err e | Panic s => Panic s end)
    else None.

  (* the value of one (stream, aggregator) pair in the new outcome: Ok None = no entry *)
  Definition agg_value (f : nat) (prev : outcome) (obs : list observation) (p : Z * Z) : res (option sval) :=
    let '(sid, agg) := p in
    let copied := match o_aggs prev !! (sid, agg) with Some (STsv t i) => Some (STsv t i) | _ => None end in
    match agg_fun agg with
    | None => Err EUnsupported
    | Some fn =>
        match fn (stream_obs obs sid) f with
        | Ok (Some (STsv t i)) =>
            match copied with
            | Some (STsv pt _) => if t <=? pt then Ok copied else Ok (Some (STsv t i))
            | _ => Ok (Some (STsv t i))
            end
        | Ok (Some v) => Ok (Some v)
        | Ok None => Err ENil                       (* a nil value would be rejected by the outcome encoder *)
        | Err _ => Ok copied
        | Panic s => Panic s
        end
    end.

  Definition referenced_pairs (defs : gmap Z chandef) : list (Z * Z) :=
    remove_dups (flat_map (fun kv => cd_streams (snd kv)) (map_to_list defs)).

  Fixpoint collect_aggs (f : nat) (prev : outcome) (obs : list observation) (ps : list (Z * Z)) : res (gmap (Z * Z) sval) :=
    match ps with
    | [] => Ok ∅
    | p :: rest =>
        match agg_value f prev obs p, collect_aggs f prev obs rest with
        | Panic s, _ => Panic s
        | _, Panic s => Panic s
        | Err e, _ => Err e
        | _, Err e => Err e
        | Ok (Some v), Ok m => Ok (<[p := v]> m)
        | Ok None, Ok m => Ok m
        end
    end.

  (* ---- what the outcome codec does to the state ---- *)
  Definition max_int64 : Z := 2 ^ 63 - 1.
  Definition max_uint32 : Z := 2 ^ 32 - 1.
  (* v0: observation timestamp must fit int64, validity starts are stored as uint32 seconds *)
  Definition codec_commit (pver : Z) (o : outcome) : res outcome :=
    if pver =? 0 then
      if max_int64 <? o_ts o then Err EOutOfRange
      else if bool_decide (map_Forall (fun _ v => v / ns_per_s <= max_uint32) (o_va o))
           then Ok {| o_stage := o_stage o; o_ts := o_ts o; o_defs := o_defs o;
                      o_va := (fun v => v / ns_per_s * ns_per_s) <$> o_va o; o_aggs := o_aggs o |}
           else Err EOutOfRange
    else Ok o.

  Definition initial_outcome (cf : cfg) : outcome :=
    {| o_stage := if c_has_pred cf then Staging else Production; o_ts := 0; o_defs := ∅; o_va := ∅; o_aggs := ∅ |}.

  (* ---- Plugin.outcome ---- *)
  Definition outcome_step (cf : cfg) (seq : Z) (prev : outcome) (aos : list (option observation)) : res outcome :=
    let f := c_f cf in
    if (length aos <? 2 * f + 1)%nat then Err EInvalid
    else if seq <=? 1 then codec_commit (c_pver cf) (initial_outcome cf)
    else
      match accept_observations (c_has_pred cf) aos with
      | Panic s => Panic s
      | Err e => Err e
      | Ok (rr, obs) =>
          match obs with
          | [] => Err ETooFew
          | _ =>
              match median_ts (map ob_ts obs) with
              | Panic s => Panic s
              | Err e => Err e
              | Ok ts =>
                  let promoted := bool_decide (o_stage prev = Staging) && match rr with Some _ => true | None => false end in
                  let st1 := if promoted then Production else o_stage prev in
                  let st2 := if bool_decide (st1 = Production) && (f <? retire_votes obs)%nat then Retired else st1 in
                  let retired := bool_decide (st2 = Retired) in
                  let defs := new_defs f retired (o_defs prev) obs in
                  let removed := if retired then [] else removed_ids f obs in
                  let carried := map_imap (fun c pva => Some (if is_reportable prev c (c_pver cf) (c_interval cf)
                                                                 then o_ts prev else pva)) (o_va prev) in
                  let va0 := match rr with
                             | Some rva => if promoted && negb (bool_decide (rva = ∅)) then rva else carried
                             | None => carried
                             end in
                  let va1 := va0 ∪ ((fun _ => ts) <$> defs) in
                  let va := foldr delete va1 removed in
                  match collect_aggs f prev obs (referenced_pairs defs) with
                  | Panic s => Panic s
                  | Err e => Err e
                  | Ok aggs =>
                      codec_commit (c_pver cf)
                        {| o_stage := st2; o_ts := ts; o_defs := defs; o_va := va; o_aggs := aggs |}
                  end
              end
          end
      end.

  (* ---- Plugin.reports ---- *)
  Record report := {
    r_chan : Z; r_va : Z; r_ts : Z; r_values : list (option sval); r_specimen : bool; r_def : chandef }.

  Definition reportable_channels (cf : cfg) (o : outcome) : list Z :=
    isort Z.ltb (filter (fun c => is_reportable o c (c_pver cf) (c_interval cf)) (map fst (map_to_list (o_defs o)))).

  Definition mk_report (o : outcome) (c : Z) : option report :=
    match o_defs o !! c with
    | Some cd =>
        Some {| r_chan := c;
                r_va := default 0 (o_va o !! c);
                r_ts := o_ts o;
                r_values := map (fun p => o_aggs o !! p) (cd_streams cd);
                r_specimen := negb (bool_decide (o_stage o = Production));
                r_def := cd |}
    | None => None
    end.

  (* (retirement report carrying the validity starts, channel reports in ascending channel order) *)
  Definition reports_of (cf : cfg) (seq : Z) (o : outcome) : option (gmap Z Z) * list report :=
    if seq <=? 1 then (None, [])
    else ((if bool_decide (o_stage o = Retired) then Some (o_va o) else None),
          omap (mk_report o) (reportable_channels cf o)).
End WithHash.
