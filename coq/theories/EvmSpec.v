(* EvmSpec.v — specification side of C12: an independent reader of the three report layouts and the field-by-field
   conditions of the property, as boolean checkers. They are (a) the conclusions of the C12 theorems about the
   model's encoders, and (b) evaluated on the bytes the implementation returned (CasesEvmCodec.v).
   Nothing here mentions the model's encode functions, CalculateFee or the decimal library model. *)
From DS Require Export EvmCodecs.

(* take n bytes *)
Definition take_bytes (n : nat) (bs : bytes) : option (bytes * bytes) :=
  if (n <=? length bs)%nat then Some (firstn n bs, skipn n bs) else None.

(* fee = round-half-up(base / price * 10^18), zero when either is missing or non-positive.
   Stated on integers: with m = min exponent, B = base/10^m and P = price/10^m,
   (2f-1) P <= 2 B 10^18 < (2f+1) P. *)
Definition fee_ok (price base : dec) (f : Z) : bool :=
  if (dz base <=? 0) || (dz price <=? 0) then f =? 0
  else
    let m := Z.min (dexp base) (dexp price) in
    let B := scaled base m in
    let P := scaled price m in
    ((2 * f - 1) * P <=? 2 * B * 10 ^ 18) && (2 * B * 10 ^ 18 <? (2 * f + 1) * P).

(* v = trunc(d * m): |v| = floor(|d m|), sign of d m (or zero) *)
Definition trunc_ok (d : dec) (m v : Z) : bool :=
  let c := dz d * m in
  if 0 <=? dexp d then v =? c * 10 ^ dexp d
  else
    let s := 10 ^ (- dexp d) in
    (Z.abs v * s <=? Z.abs c) && (Z.abs c <? (Z.abs v + 1) * s) && ((v =? 0) || (Z.sgn v =? Z.sgn c)).

(* the price a fee is computed from: a decimal, a quote's benchmark, or missing *)
Definition price_of (v : option sval) : option dec :=
  match v with
  | None => Some dzero
  | Some (SDec d) => Some d
  | Some (SQuote _ bm _) => Some bm
  | Some (STsv _ _) => None
  end.

Definition u32_okb (x : Z) : bool := (0 <=? x) && (x <=? max_uint32).
Definition u192_okb (x : Z) : bool := (0 <=? x) && (x <=? max_uint192).
Definition i192_okb (x : Z) : bool := (min_int192' <=? x) && (x <=? max_int192').

(* the six header words shared by the v3 schema and the ABI-encode-unpacked BaseSchema:
   bytes32 feedId, uint32 validFromTimestamp, uint32 observationsTimestamp, uint192 nativeFee, uint192 linkFee, uint32 expiresAt *)
Definition header_ok (feed : bytes) (base : dec) (window : Z) (r : report) (np lp : dec) (bs : bytes) : option bytes :=
  match take_bytes 32 bs with
  | Some (w0, r0) =>
  match take_bytes 32 r0 with
  | Some (w1, r1) =>
  match take_bytes 32 r1 with
  | Some (w2, r2) =>
  match take_bytes 32 r2 with
  | Some (w3, r3) =>
  match take_bytes 32 r3 with
  | Some (w4, r4) =>
  match take_bytes 32 r4 with
  | Some (w5, r5) =>
      if bytes_eqb w0 feed &&
         (be_value w1 =? r_va r / 10 ^ 9 + 1) && u32_okb (be_value w1) &&
         (be_value w2 =? r_ts r / 10 ^ 9) && u32_okb (be_value w2) &&
         fee_ok np base (be_value w3) && u192_okb (be_value w3) &&
         fee_ok lp base (be_value w4) && u192_okb (be_value w4) &&
         (be_value w5 =? r_ts r / 10 ^ 9 + window) && u32_okb (be_value w5)
      then Some r5 else None
  | None => None end | None => None end | None => None end | None => None end | None => None end | None => None end.

(* ---- premium legacy: v3 schema = header ++ int192 benchmark, bid, ask ---- *)
Definition legacy_spec (o : legacy_opts) (r : report) (bs : bytes) : bool :=
  match r_values r with
  | [v0; v1; Some (SQuote bid bm ask)] =>
      match price_of v0, price_of v1 with
      | Some np, Some lp =>
          match header_ok (lo_feed o) (lo_fee o) (lo_window o) r np lp bs with
          | Some rest =>
              match take_bytes 32 rest with
              | Some (w6, r6) =>
              match take_bytes 32 r6 with
              | Some (w7, r7) =>
              match take_bytes 32 r7 with
              | Some (w8, r8) =>
                  let m := match lo_mult o with Some m => m | None => 1 end in
                  trunc_ok bm m (twos_read w6) && i192_okb (twos_read w6) &&
                  trunc_ok bid m (twos_read w7) && i192_okb (twos_read w7) &&
                  trunc_ok ask m (twos_read w8) && i192_okb (twos_read w8) &&
                  match r8 with [] => true | _ => false end
              | None => false end | None => false end | None => false end
          | None => false
          end
      | _, _ => false
      end
  | _ => false
  end.

(* ---- one declared Solidity integer type read from a byte string of the right width ---- *)
Definition read_int (sg : bool) (w : bytes) : Z := if sg then twos_read w else be_value w.

(* padded: one 32-byte word per single encoder, holding trunc(value * multiplier) in the declared type *)
Definition padded1_ok (e : enc1) (d : dec) (bs : bytes) : option bytes :=
  match parse_type (e_type e), take_bytes 32 bs with
  | Some (sg, wd), Some (w, rest) =>
      let x := read_int sg w in
      if trunc_ok d (mult_of e) x && in_rangeb sg wd x then Some rest else None
  | _, _ => None
  end.
Definition padded_u64_ok (e : enc1) (t : Z) (bs : bytes) : option bytes :=
  match parse_type (e_type e), take_bytes 32 bs with
  | Some (sg, wd), Some (w, rest) =>
      let x := read_int sg w in
      if (x =? t * mult_of e) && in_rangeb sg wd x then Some rest else None
  | _, _ => None
  end.
Definition padded_value_ok (a : abienc) (v : option sval) (bs : bytes) : option bytes :=
  match a, v with
  | [e], Some (SDec d) => padded1_ok e d bs
  | [e0; e1], Some (STsv t (SDec d)) =>
      match padded_u64_ok e0 t bs with Some rest => padded1_ok e1 d rest | None => None end
  | _, _ => None
  end.

Fixpoint values_ok (f : abienc -> option sval -> bytes -> option bytes) (abi : list abienc) (vs : list (option sval)) (bs : bytes) : bool :=
  match abi, vs with
  | [], [] => match bs with [] => true | _ => false end
  | a :: abi', v :: vs' => match f a v bs with Some rest => values_ok f abi' vs' rest | None => false end
  | _, _ => false
  end.

Definition unpacked_spec (o : unpacked_opts) (r : report) (bs : bytes) : bool :=
  match r_values r with
  | v0 :: v1 :: rest =>
      match price_of v0, price_of v1 with
      | Some np, Some lp =>
          match header_ok (uo_feed o) (uo_fee o) (uo_window o) r np lp bs with
          | Some payload => values_ok padded_value_ok (uo_abi o) rest payload
          | None => false
          end
      | _, _ => false
      end
  | _ => false
  end.

(* packed: width/8 bytes per single encoder; the "bytes0" sentinel contributes nothing *)
Definition packed1_ok (e : enc1) (d : dec) (bs : bytes) : option bytes :=
  if is_bytes0 e then Some bs
  else match parse_type (e_type e) with
       | Some (sg, wd) =>
           match take_bytes (Z.to_nat (wd / 8)) bs with
           | Some (w, rest) =>
               let x := read_int sg w in
               if trunc_ok d (mult_of e) x && in_rangeb sg wd x then Some rest else None
           | None => None
           end
       | None => None
       end.
Definition packed_u64_ok (e : enc1) (t : Z) (bs : bytes) : option bytes :=
  if is_bytes0 e then Some bs
  else match parse_type (e_type e) with
       | Some (sg, wd) =>
           match take_bytes (Z.to_nat (wd / 8)) bs with
           | Some (w, rest) =>
               let x := read_int sg w in
               if (x =? t * mult_of e) && in_rangeb sg wd x then Some rest else None
           | None => None
           end
       | None => None
       end.
Definition packed_value_ok (a : abienc) (v : option sval) (bs : bytes) : option bytes :=
  match a, v with
  | [e], Some (SDec d) => packed1_ok e d bs
  | [e0; e1], Some (STsv t inner) =>
      match packed_u64_ok e0 t bs with
      | Some rest =>
          match inner with
          | SDec d => packed1_ok e1 d rest
          | _ => if is_bytes0 e1 then Some rest else None
          end
      | None => None
      end
  | _, _ => None
  end.

(* streamlined: 32-byte feed id, or uint32 report format ++ uint32 channel id; uint64 validAfter in ns; packed values *)
Definition streamlined_spec (o : streamlined_opts) (fmt : Z) (r : report) (bs : bytes) : bool :=
  let after_prefix :=
    match so_feed o with
    | Some f => match take_bytes 32 bs with Some (w, rest) => if bytes_eqb w f then Some rest else None | None => None end
    | None =>
        match take_bytes 4 bs with
        | Some (w0, r0) =>
            match take_bytes 4 r0 with
            | Some (w1, r1) => if (be_value w0 =? fmt) && (be_value w1 =? r_chan r) then Some r1 else None
            | None => None
            end
        | None => None
        end
    end in
  match after_prefix with
  | Some r1 =>
      match take_bytes 8 r1 with
      | Some (w, rest) => (be_value w =? r_va r) && values_ok packed_value_ok (so_abi o) (r_values r) rest
      | None => false
      end
  | None => false
  end.

(* ---- "some field does not fit its declared type": the ideal (unbounded) field values ---- *)
(* the 32-bit time fields *)
Definition time_unfit (window : Z) (r : report) : bool :=
  negb (u32_okb (r_va r / 10 ^ 9 + 1)) || negb (u32_okb (r_ts r / 10 ^ 9)) || negb (u32_okb (r_ts r / 10 ^ 9 + window)).

(* ---- input regions of the recorded findings ---- *)
(* F3: expiresAt is a wrapping uint32 addition; f3_adjust is the window that the wrapped sum corresponds to *)
Definition f3_adjust (window : Z) (r : report) : Z := let ots := r_ts r / 10 ^ 9 in add_u32 ots window - ots.
(* F4: both the base fee and a price positive, and exp(base) - exp(price) + 18 outside int32 *)
Definition f4_region (base : dec) (r : report) : bool :=
  existsb (fun v => match price_of v with
                    | Some p => (0 <? dz base) && (0 <? dz p) && negb (int32_okb (dexp base - dexp p + 18))
                    | None => false end) (firstn 2 (r_values r)).

(* decimals as the plugin can hold them: int32 exponents *)
Fixpoint sval_wf (v : sval) : bool :=
  match v with
  | SDec d => dec_wf d
  | SQuote a b c => dec_wf a && dec_wf b && dec_wf c
  | STsv _ i => sval_wf i
  end.
Definition values_wf (r : report) : bool :=
  forallb (fun v => match v with Some x => sval_wf x | None => true end) (r_values r).
