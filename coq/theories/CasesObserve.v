(* CasesObserve.v — evaluation of the `observe` projection: the whole of Plugin.Observation against
   ObservationCodec.plugin_observation (everything but the wall-clock timestamp). *)
From stdpp Require Import gmap.
From DS Require Import Base Decimal StreamValue Sort Aggregators Outcome OutcomeCodec Observe ObservationCodec CasesHistory.
Open Scope Z_scope.

Inductive obv_case :=
  OBV (cf : cfg) (seq : Z) (prev : list Z) (cache_att : res (list Z)) (should_retire : res bool)
      (expected : gmap Z chandef) (source_vals : gmap Z sval) (source_fails : bool) (out : res (option raw_observation))
      (t0 t1 : Z).   (* the harness's clock (ns) just before and just after the call *)

Definition obs_eqb_no_ts (a b : raw_observation) : bool :=
  bool_decide (ro_att a = ro_att b) && Bool.eqb (ro_retire a) (ro_retire b) &&
  bool_decide ((list_to_set (ro_removes a) : gset Z) = list_to_set (ro_removes b)) &&
  bool_decide (ro_updates a = ro_updates b) && bool_decide (ro_values a = ro_values b).

Definition obv_agrees (c : obv_case) : bool :=
  match c with
  | OBV cf seq prev att ret expd vals fails out _ _ =>
      match plugin_observation (fun _ => true) cf seq prev 1 att ret expd vals fails, out with
      | Ok (Some a), Ok (Some b) => obs_eqb_no_ts a b
      | Ok None, Ok None => true
      | Err _, Err _ => true
      | Panic _, Panic _ => true
      | _, _ => false
      end
  end.
(* on the implementation alone: never a panic; what it produced passes its own validation limits *)
Definition obv_spec_ok (c : obv_case) : bool :=
  match c with
  | OBV cf _ prev _ _ _ vals _ out t0 t1 =>
      match out with
      | Panic _ => false
      (* it passes validation, its timestamp is this node's clock reading, and it carries exactly the values its data
         source returned for the streams the previous outcome's channels reference (none when retired) *)
      | Ok (Some ob) =>
          validate_observation (fun _ => true) (c_has_pred cf) ob && (t0 <=? ro_ts ob) && (ro_ts ob <=? t1) &&
          match decode_outcome (c_pver cf) prev with
          | Ok p =>
              if bool_decide (o_stage p = Retired) then bool_decide (ro_values ob = ∅)
              else bool_decide (ro_values ob = base.filter (fun kv : Z * sval => is_Some (unique_stream_set (o_defs p) !! fst kv)) vals)
          | _ => true
          end
      | _ => true
      end
  end.
Definition obv_branch (c : obv_case) : nat :=
  match c with
  | OBV _ _ _ _ _ _ _ _ (Ok None) _ _ => 0
  | OBV _ _ _ _ _ _ _ _ (Ok (Some ob)) _ _ => if bool_decide (ro_updates ob = ∅) && bool_decide (ro_removes ob = []) then 1 else 2
  | OBV _ _ _ _ _ _ _ _ (Err _) _ _ => 3
  | OBV _ _ _ _ _ _ _ _ (Panic _) _ _ => 4
  end%nat.
Definition obv_eval (cs : list obv_case) : list nat * list nat * list nat :=
  (index_where (fun c => negb (obv_agrees c)) cs, index_where (fun c => negb (obv_spec_ok c)) cs,
   map (fun b => length (List.filter (Nat.eqb b) (map obv_branch cs))) (seq 0 5)).
