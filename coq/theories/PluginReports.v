(* PluginReports.v — llo/plugin_reports.go at byte level: Plugin.reports decodes the outcome bytes, emits the
   retirement report when retired, and one encoded report per reportable channel; a missing codec or an encoding
   error drops that channel's report (logged), it does not fail the call. *)
From stdpp Require Import gmap.
From DS Require Import Base Decimal StreamValue Wire Sort Aggregators RepoConstants Outcome OutcomeCodec.
Open Scope Z_scope.

Section Reports.
  (* p.ReportCodecs: report format -> Encode(report, definition); None = no codec registered for the format *)
  Context (codecs : Z -> option (chandef -> report -> res (list Z))).
  (* p.RetirementReportCodec.Encode (JSON based, external to the model) *)
  Context (retire_enc : gmap Z Z -> res (list Z)).

  Fixpoint encode_reports (rs : list report) : res (list (list Z)) :=
    match rs with
    | [] => Ok []
    | r :: rest =>
        match codecs (cd_fmt (r_def r)) with
        | None => encode_reports rest                                 (* "codec missing": warn, continue *)
        | Some enc =>
            match enc (r_def r) r with
            | Panic s => Panic s
            | Err _ => encode_reports rest                            (* "Error encoding report": warn, continue *)
            | Ok b => match encode_reports rest with Ok bs => Ok (b :: bs) | Err e => Err e | Panic s => Panic s end
            end
        end
    end.

  Definition plugin_reports (cf : cfg) (seq : Z) (raw_outcome : list Z) : res (list (list Z)) :=
    if seq <=? 1 then Ok []
    else
      match decode_outcome (c_pver cf) raw_outcome with
      | Panic s => Panic s
      | Err e => Err e
      | Ok o =>
          let '(ret, reps) := reports_of cf seq o in
          match (match ret with Some va => match retire_enc va with Ok b => Ok [b] | Err e => Err e | Panic s => Panic s end | None => Ok [] end) with
          | Panic s => Panic s
          | Err e => Err e
          | Ok r0 => match encode_reports reps with Ok bs => Ok (r0 ++ bs) | Err e => Err e | Panic s => Panic s end
          end
      end.
End Reports.
