(* CasesDet.v — evaluation of the `determinism` projection (C01): per history, how many distinct byte results
   k repeated evaluations on fresh plugin instances produced. *)
From DS Require Import Base.
Record det_case := { dc_evals : nat; dc_rounds : nat; dc_distinct_outcomes : nat; dc_distinct_reports : nat }.
Definition det_ok (c : det_case) : bool := (dc_distinct_outcomes c <=? 1)%nat && (dc_distinct_reports c <=? 1)%nat.
(* the totals are computed in Z: a unary nat of several hundred thousand overflows the stack when the result is read back *)
Definition det_eval (cs : list det_case) : list nat * list nat * list Z :=
  ([], index_where (fun c => negb (det_ok c)) cs,
   [fold_left Z.add (map (fun c => Z.of_nat (dc_evals c)) cs) 0%Z; fold_left Z.add (map (fun c => Z.of_nat (dc_rounds c)) cs) 0%Z]).
