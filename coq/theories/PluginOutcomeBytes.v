(* PluginOutcomeBytes.v — llo.Plugin.Outcome from wire to wire: attributed observations arrive as bytes
   (decodeObservations: ObservationCodec.Decode, undecodable ones ignored; a non-empty attestation is handed to the
   PredecessorRetirementReportCache, represented by the function `check`), the previous outcome arrives as bytes, the
   new outcome leaves as bytes. *)
From stdpp Require Import gmap.
From DS Require Import Base Decimal StreamValue Sort Aggregators RepoConstants Outcome OutcomeCodec Observe ObservationCodec PluginOutcome.
Open Scope Z_scope.

Definition obs_of_raw (check : list Z -> option (gmap Z Z)) (ro : raw_observation) : observation :=
  {| ob_att := match ro_att ro with
               | [] => NoAttest
               | a => match check a with Some va => GoodAttest va | None => BadAttest end
               end;
     ob_retire := ro_retire ro; ob_ts := ro_ts ro; ob_removes := ro_removes ro;
     ob_updates := ro_updates ro; ob_values := ro_values ro |}.
Definition obs_of_bytes (check : list Z -> option (gmap Z Z)) (bs : list Z) : option observation :=
  match decode_observation bs with Ok ro => Some (obs_of_raw check ro) | _ => None end.

Definition plugin_outcome_bytes (h : Z -> chandef -> list Z) (check : list Z -> option (gmap Z Z))
           (cf : cfg) (seq : Z) (prev_bytes : list Z) (aos : list (list Z)) : res (list Z) :=
  plugin_outcome h cf seq prev_bytes (map (obs_of_bytes check) aos).

(* a cache given as a finite table (the harness's mock) *)
Definition check_of_table (tbl : list (list Z * option (gmap Z Z))) (a : list Z) : option (gmap Z Z) :=
  match find (fun e => bool_decide (fst e = a)) tbl with Some e => snd e | None => None end.
