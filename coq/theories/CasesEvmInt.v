(* CasesEvmInt.v — evaluation of the `evmint` projection: compares the implementation's observed
   outputs (written by the harness into a cases file) with the model, and evaluates the C13
   property predicate directly on the implementation's outputs. *)
From DS Require Import Base EvmInt.

Record evmint_case := { ec_v : Z; ec_t : bytes; ec_packed : res bytes; ec_padded : res bytes }.

Definition res_bytes_eqb (a b : res bytes) : bool :=
  match a, b with
  | Ok x, Ok y => bytes_eqb x y
  | Err e, Err e' => errkind_eqb e e'
  | Panic _, Panic _ => true
  | _, _ => false
  end.

Definition evmint_agrees (c : evmint_case) : bool :=
  res_bytes_eqb (encode_packed (ec_v c) (ec_t c)) (ec_packed c) &&
  res_bytes_eqb (encode_padded (ec_v c) (ec_t c)) (ec_padded c).

(* specification-side parser: independent of the source-derived width list *)
Definition spec_parse (t : bytes) : option (bool * Z) :=
  match find (fun w => bytes_eqb (type_name false w) t) solidity_widths with
  | Some w => Some (false, w)
  | None => match find (fun w => bytes_eqb (type_name true w) t) solidity_widths with
            | Some w => Some (true, w)
            | None => None
            end
  end.

(* the property C13, as a boolean over (input, implementation output) *)
Definition evmint_spec_ok (c : evmint_case) : bool :=
  let v := ec_v c in
  match spec_parse (ec_t c) with
  | None => match ec_packed c, ec_padded c with Err EInvalidType, Err EInvalidType => true | _, _ => false end
  | Some (sg, w) =>
      if in_rangeb sg w v then
        match ec_packed c, ec_padded c with
        | Ok bs, Ok ps =>
            (Z.of_nat (length bs) =? w / 8) && bytes_ok bs && (be_value bs =? v mod 2 ^ w) &&
            (if sg then twos_read bs =? v else be_value bs =? v) &&
            (length ps =? 32)%nat && bytes_ok ps && (be_value ps =? v mod 2 ^ 256)
        | _, _ => false
        end
      else match ec_packed c, ec_padded c with Err EOutOfRange, Err EOutOfRange => true | _, _ => false end
  end.

(* branch of the model a case exercises: 0 invalid type, 1 unsigned ok, 2 unsigned out of range,
   3 signed ok (non-negative), 4 signed ok (negative), 5 signed out of range *)
Definition evmint_branch (c : evmint_case) : nat :=
  match parse_type (ec_t c) with
  | None => 0%nat
  | Some (false, w) => if in_rangeb false w (ec_v c) then 1%nat else 2%nat
  | Some (true, w) => if in_rangeb true w (ec_v c) then (if ec_v c <? 0 then 4%nat else 3%nat) else 5%nat
  end.

Definition histogram (n : nat) (l : list nat) : list nat :=
  map (fun b => length (filter (Nat.eqb b) l)) (seq 0 n).

Definition evmint_eval (cs : list evmint_case) : list nat * list nat * list nat :=
  (index_where (fun c => negb (evmint_agrees c)) cs,
   index_where (fun c => negb (evmint_spec_ok c)) cs,
   histogram 6 (map evmint_branch cs)).
