(* TextForms.v — llo/stream_value.go text forms (MarshalText / UnmarshalText, TypedTextStreamValue) and
   llo/json_report_codec.go Encode / Decode at the level of the Go structs handed to / received from encoding/json.
   shopspring/decimal String() and NewFromString are modelled on byte strings; the two regular expressions are
   modelled by hand-written matchers for exactly the expressions found in /repo (see props/C17.v: the generated
   source strings must equal the modelled ones). *)
From DS Require Export StreamValue.
From DS Require Import RepoConstants.

Definition ch (s : string) : Z := match str_bytes s with c :: _ => c | [] => 0 end.
Definition is_digit (c : Z) : bool := (48 <=? c) && (c <=? 57).
Definition is_digit_dot (c : Z) : bool := is_digit c || (c =? 46).

(* ---- integers as decimal digit strings ---- *)
Definition digits_val (s : bytes) : Z := fold_left (fun acc c => acc * 10 + (c - 48)) s 0.
(* big.Int.String / strconv of a non-negative integer: "0" for zero *)
Definition nat_string (v : Z) : bytes := dec_digits v.
Definition int_string (v : Z) : bytes := if v <? 0 then 45 :: nat_string (- v) else nat_string v.

(* strconv.ParseInt / big.Int.SetString base 10: optional sign, at least one digit, digits only *)
Definition parse_int (s : bytes) : option Z :=
  let '(neg, ds) := match s with
                    | c :: r => if c =? 45 then (true, r) else if c =? 43 then (false, r) else (false, s)
                    | [] => (false, s)
                    end in
  match ds with
  | [] => None
  | _ => if forallb is_digit ds then Some (if neg then - digits_val ds else digits_val ds) else None
  end.

(* ---- Decimal.String() ---- *)
Fixpoint trim_zeros_rev (r : bytes) : bytes := match r with c :: t => if c =? 48 then trim_zeros_rev t else r | [] => [] end.
Definition trim_trailing_zeros (s : bytes) : bytes := rev (trim_zeros_rev (rev s)).

Definition dec_string (d : dec) : bytes :=
  let c := big_toZ (dcoef d) in
  if 0 <=? dexp d then int_string (c * 10 ^ dexp d)
  else
    let str := nat_string (Z.abs c) in
    let k := Z.to_nat (- dexp d) in
    let '(ip, fp) := if (k <? length str)%nat then (firstn (length str - k) str, skipn (length str - k) str)
                     else ([48], repeat 48 (k - length str) ++ str) in
    let fp' := trim_trailing_zeros fp in
    let number := match fp' with [] => ip | _ => ip ++ 46 :: fp' end in
    if c <? 0 then 45 :: number else number.

(* ---- decimal.NewFromString, for inputs without an exponent part (None: scientific notation, not modelled) ---- *)
Definition count_of (c : Z) (s : bytes) : nat := length (filter (Z.eqb c) s).
Fixpoint split_at_char (c : Z) (s : bytes) : bytes * bytes :=      (* before, after the first c *)
  match s with
  | [] => ([], [])
  | x :: r => if x =? c then ([], r) else let '(a, b) := split_at_char c r in (x :: a, b)
  end.

Definition dec_parse (s : bytes) : option (res dec) :=
  if existsb (fun c => (c =? 69) || (c =? 101)) s then None
  else
    match count_of 46 s with
    | O => Some match parse_int s with Some v => Ok (mkdec v 0) | None => Err EMalformed end
    | S O =>
        let '(a, b) := split_at_char 46 s in
        Some match parse_int (a ++ b) with Some v => Ok (mkdec v (- Z.of_nat (length b))) | None => Err EMalformed end
    | _ => Some (Err EMalformed)
    end.

(* ---- Quote ---- *)
Definition s_q1 := str_bytes "Q{Bid: ".
Definition s_q2 := str_bytes ", Benchmark: ".
Definition s_q3 := str_bytes ", Ask: ".
Definition quote_text (bid bm ask : dec) : bytes :=
  s_q1 ++ dec_string bid ++ s_q2 ++ dec_string bm ++ s_q3 ++ dec_string ask ++ [125].

Fixpoint span (p : Z -> bool) (s : bytes) : bytes * bytes :=
  match s with
  | x :: r => if p x then let '(a, b) := span p r in (x :: a, b) else ([], s)
  | [] => ([], [])
  end.

(* one group: -?[0-9.]+ when minus is allowed (the D3 repair), [0-9.]+ otherwise *)
Definition match_num (minus : bool) (s : bytes) : option (bytes * bytes) :=
  let '(neg, s1) := match s with c :: r => if (c =? 45) && minus then (true, r) else (false, s) | [] => (false, s) end in
  let '(run, rest) := span is_digit_dot s1 in
  match run with [] => None | _ => Some (if neg then 45 :: run else run, rest) end.

Definition match_quote_at (minus : bool) (s : bytes) : option (bytes * bytes * bytes) :=
  match is_prefix s_q1 s with
  | Some s1 =>
    match match_num minus s1 with
    | Some (g1, s2) =>
      match is_prefix s_q2 s2 with
      | Some s3 =>
        match match_num minus s3 with
        | Some (g2, s4) =>
          match is_prefix s_q3 s4 with
          | Some s5 =>
            match match_num minus s5 with
            | Some (g3, s6) => match s6 with c :: _ => if c =? 125 then Some (g1, g2, g3) else None | [] => None end
            | None => None end
          | None => None end
        | None => None end
      | None => None end
    | None => None end
  | None => None
  end.

(* the expression is not anchored: leftmost match *)
Fixpoint find_quote (minus : bool) (s : bytes) : option (bytes * bytes * bytes) :=
  match match_quote_at minus s with
  | Some r => Some r
  | None => match s with [] => None | _ :: t => find_quote minus t end
  end.

(* the modelled expressions *)
Definition quote_regex_modelled : string := "Q\{Bid: (-?[0-9.]+), Benchmark: (-?[0-9.]+), Ask: (-?[0-9.]+)\}".
Definition tsv_regex_modelled : string := "^TSV\{ObservedAtNanoseconds: ([0-9]+), StreamValue: (.+)\}$".

(* a decimal field of a quote: digits and dots only, so never scientific notation *)
Definition dec_parse' (s : bytes) : res dec := match dec_parse s with Some r => r | None => Err EMalformed end.

Definition quote_parse (s : bytes) : res sval :=
  match find_quote true s with
  | None => Err EMalformed
  | Some (g1, g2, g3) =>
      bid <- dec_parse' g1 ;; bm <- dec_parse' g2 ;; ask <- dec_parse' g3 ;; Ok (SQuote bid bm ask)
  end.

(* ---- the JSON object {"t":<n>,"v":"<string>"} as json.Marshal writes it for the texts produced here ---- *)
Fixpoint json_esc (s : bytes) : bytes :=
  match s with
  | [] => []
  | c :: r => if (c =? 34) || (c =? 92) then 92 :: c :: json_esc r else c :: json_esc r
  end.
Definition s_j1 := str_bytes "{""t"":".
Definition s_j2 := str_bytes ",""v"":""".
Definition s_j3 := str_bytes """}".
Definition json_tt (t : Z) (v : bytes) : bytes := s_j1 ++ int_string t ++ s_j2 ++ json_esc v ++ s_j3.

(* reads an escaped string up to the closing quote; None outside the modelled escapes *)
Fixpoint json_unesc (s : bytes) : option (bytes * bytes) :=
  match s with
  | [] => None
  | c :: r =>
      if c =? 34 then Some ([], r)
      else if c =? 92 then
        match r with
        | c2 :: r2 => if (c2 =? 34) || (c2 =? 92)
                      then match json_unesc r2 with Some (a, b) => Some (c2 :: a, b) | None => None end
                      else None
        | [] => None
        end
      else if (c <? 32) || (126 <? c) then None
      else match json_unesc r with Some (a, b) => Some (c :: a, b) | None => None end
  end.

(* None: not of the canonical shape (the real decoder accepts more JSON than this; those inputs are not modelled) *)
Definition json_tt_parse (s : bytes) : option (res (Z * bytes)) :=
  match is_prefix s_j1 s with
  | Some s1 =>
      let '(ds, s2) := span is_digit s1 in
      match ds with
      | [] => None
      | _ =>
        match is_prefix s_j2 s2 with
        | Some s3 =>
            match json_unesc s3 with
            | Some (v, tl) =>
                if bytes_eqb tl [125] then
                  let t := digits_val ds in
                  Some (if t <? 2 ^ 31 then Ok (t, v) else Err EMalformed)
                else None
            | None => None
            end
        | None => None
        end
      end
  | None => None
  end.

(* ---- TimestampedStreamValue ---- *)
Definition s_t1 := str_bytes "TSV{ObservedAtNanoseconds: ".
Definition s_t2 := str_bytes ", StreamValue: ".
Definition tsv_text (t : Z) (inner_type : Z) (inner_text : bytes) : bytes :=
  s_t1 ++ nat_string t ++ s_t2 ++ json_tt inner_type inner_text ++ [125].

Fixpoint sval_text (v : sval) : bytes :=
  match v with
  | SDec d => dec_string d
  | SQuote bid bm ask => quote_text bid bm ask
  | STsv t inner => tsv_text t (sv_type inner) (sval_text inner)
  end.

(* ^TSV\{ObservedAtNanoseconds: ([0-9]+), StreamValue: (.+)\}$ : Some (digits, body) *)
Definition match_tsv (s : bytes) : option (bytes * bytes) :=
  match is_prefix s_t1 s with
  | Some s1 =>
      let '(ds, s2) := span is_digit s1 in
      match ds with
      | [] => None
      | _ =>
        match is_prefix s_t2 s2 with
        | Some s3 =>
            if existsb (Z.eqb 10) s3 then None
            else match rev s3 with
                 | c :: rb => if c =? 125 then match rb with [] => None | _ => Some (ds, rev rb) end else None
                 | [] => None
                 end
        | None => None
        end
      end
  | None => None
  end.

(* UnmarshalTypedTextStreamValue; result None = the input leaves the modelled JSON / number syntax *)
Fixpoint typed_parse (fuel : nat) (t : Z) (v : bytes) : option (res sval) :=
  match fuel with
  | O => None
  | S k =>
      if t =? 0 then match dec_parse v with Some r => Some (d <- r ;; Ok (SDec d)) | None => None end
      else if t =? 1 then Some (quote_parse v)
      else if t =? 2 then
        match match_tsv v with
        | None => Some (Err EMalformed)
        | Some (ds, body) =>
            let ts := digits_val ds in
            if 2 ^ 64 <=? ts then Some (Err EOutOfRange)
            else match json_tt_parse body with
                 | None => None
                 | Some (Err e) => Some (Err e)
                 | Some (Panic s) => Some (Panic s)
                 | Some (Ok (t1, v1)) =>
                     match typed_parse k t1 v1 with
                     | None => None
                     | Some r => Some (i <- r ;; Ok (STsv ts i))
                     end
                 end
        end
      else Some (Err EInvalidType)
  end.

(* ---- hex (encoding/hex): lower-case encoder; decoder accepts both cases, even length only ---- *)
Definition hex_digit (n : Z) : Z := if n <? 10 then 48 + n else 87 + n.
Fixpoint hex_encode (bs : bytes) : bytes :=
  match bs with [] => [] | b :: r => hex_digit (b / 16) :: hex_digit (b mod 16) :: hex_encode r end.
Definition hex_val (c : Z) : option Z :=
  if is_digit c then Some (c - 48)
  else if (97 <=? c) && (c <=? 102) then Some (c - 87)
  else if (65 <=? c) && (c <=? 70) then Some (c - 55)
  else None.
Fixpoint hex_decode (s : bytes) : option bytes :=
  match s with
  | [] => Some []
  | a :: b :: r =>
      match hex_val a, hex_val b, hex_decode r with
      | Some x, Some y, Some rest => Some (x * 16 + y :: rest)
      | _, _, _ => None
      end
  | _ => None
  end.

(* ---- JSONReportCodec at struct level ---- *)
Record jreport := {                (* what json.Marshal receives / json.Unmarshal fills *)
  j_digest : bytes;                (* ConfigDigest as text *)
  j_seq : Z; j_chan : Z; j_va : Z; j_ts : Z;
  j_values : list (Z * bytes);     (* TypedTextStreamValue {t, v} *)
  j_specimen : bool }.
Record freport := {                (* llo.Report *)
  f_digest : bytes; f_seq : Z; f_chan : Z; f_va : Z; f_ts : Z; f_values : list (option sval); f_specimen : bool }.

Fixpoint typed_all (vs : list (option sval)) : res (list (Z * bytes)) :=
  match vs with
  | [] => Ok []
  | None :: _ => Err ENil
  | Some v :: r => rest <- typed_all r ;; Ok ((sv_type v, sval_text v) :: rest)
  end.

Definition json_encode (r : freport) : res jreport :=
  vs <- typed_all (f_values r) ;;
  Ok {| j_digest := hex_encode (f_digest r); j_seq := f_seq r; j_chan := f_chan r; j_va := f_va r; j_ts := f_ts r;
        j_values := vs; j_specimen := f_specimen r |}.

Fixpoint untyped_all (vs : list (Z * bytes)) : option (res (list (option sval))) :=
  match vs with
  | [] => Some (Ok [])
  | (t, v) :: r =>
      match typed_parse (S (length v)) t v with
      | None => None
      | Some (Ok x) => match untyped_all r with
                       | None => None
                       | Some rr => Some (rest <- rr ;; Ok (Some x :: rest))
                       end
      | Some (Err e) => Some (Err e)
      | Some (Panic s) => Some (Panic s)
      end
  end.

Definition json_decode (j : jreport) : option (res freport) :=
  if j_seq j =? 0 then Some (Err EInvalid)
  else match hex_decode (j_digest j) with
       | None => Some (Err EMalformed)
       | Some d =>
           if negb (length d =? 32)%nat then Some (Err EMalformed)
           else match untyped_all (j_values j) with
                | None => None
                | Some rv => Some (vs <- rv ;;
                     Ok {| f_digest := d; f_seq := j_seq j; f_chan := j_chan j; f_va := j_va j; f_ts := j_ts j;
                           f_values := vs; f_specimen := j_specimen j |})
                end
       end.

(* ---- Pack / Unpack at struct level: {configDigest (hex text), seqNr, report (raw JSON), sigs [(signature, signer)]} ---- *)
Record ptuple := { pt_digest : bytes; pt_seq : Z; pt_report : bytes; pt_sigs : list (bytes * Z) }.
Record jpack := { jp_digest : bytes; jp_seq : Z; jp_report : bytes; jp_sigs : list (bytes * Z) }.
Definition pack_model (t : ptuple) : jpack :=
  {| jp_digest := hex_encode (pt_digest t); jp_seq := pt_seq t; jp_report := pt_report t; jp_sigs := pt_sigs t |}.
Definition unpack_model (j : jpack) : res ptuple :=
  match hex_decode (jp_digest j) with
  | None => Err EMalformed
  | Some d => if (length d =? 32)%nat
              then Ok {| pt_digest := d; pt_seq := jp_seq j; pt_report := jp_report j; pt_sigs := jp_sigs j |}
              else Err EMalformed
  end.

(* ---- "the same value" (specification side): numerically equal decimals, equal timestamps, same shape ---- *)
Fixpoint sval_equiv (a b : sval) : bool :=
  match a, b with
  | SDec x, SDec y => deqvb x y
  | SQuote a1 a2 a3, SQuote b1 b2 b3 => deqvb a1 b1 && deqvb a2 b2 && deqvb a3 b3
  | STsv t x, STsv u y => (t =? u) && sval_equiv x y
  | _, _ => false
  end.
Definition oval_equiv (a b : option sval) : bool :=
  match a, b with Some x, Some y => sval_equiv x y | None, None => true | _, _ => false end.
Fixpoint list_all2 {A} (f : A -> A -> bool) (a b : list A) : bool :=
  match a, b with [] , [] => true | x :: a', y :: b' => f x y && list_all2 f a' b' | _, _ => false end.
Definition freport_equiv (a b : freport) : bool :=
  bytes_eqb (f_digest a) (f_digest b) && (f_seq a =? f_seq b) && (f_chan a =? f_chan b) && (f_va a =? f_va b) &&
  (f_ts a =? f_ts b) && Bool.eqb (f_specimen a) (f_specimen b) && list_all2 oval_equiv (f_values a) (f_values b).
(* timestamps of timestamped values are uint64 *)
Fixpoint sval_ts_ok (v : sval) : bool :=
  match v with STsv t i => (0 <=? t) && (t <? 2 ^ 64) && sval_ts_ok i | _ => true end.
