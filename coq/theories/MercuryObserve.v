(* MercuryObserve.v — mercury/v1..v4/mercury.go Observation: what a correct node sends, as a function of what its data
   source returned (value or error per field), the configured base fee and the wall clock; mercury/fees.go CalculateFee
   (shopspring/decimal Mul / Div = DivRound(16) / BigInt with their panics); and proto.Marshal of the four
   MercuryObservationProto messages (proto3: zero values are not emitted, fields in field-number order). *)
From DS Require Import Base Wire Sort Decimal MercuryAgg Config MercuryReport RepoConstants.
Open Scope Z_scope.

Definition dzc (d : dec) : Z := big_toZ (dcoef d).
Definition int32_in (e : Z) : bool := (- 2 ^ 31 <=? e) && (e <? 2 ^ 31).

(* CalculateFee(tokenPriceInUSD *big.Int, baseUSDFee decimal.Decimal):
     zero if either is zero; baseUSDFee.Mul(1e18).Div(price).Mul(1e18).BigInt().
   Div = DivRound(_, 16): QuoRem panics when exp(base) + 16 leaves int32; truncated quotient, then one unit (10^-16) away
   from zero when 2|r| >= |scaled divisor|; the final Mul(1e18).BigInt() turns q * 10^-16 into q * 100 exactly. *)
Definition merc_calc_fee (price : Z) (base : dec) : res Z :=
  if (price =? 0) || (dzc base =? 0) then Ok 0
  else
    let e := dexp base + 16 in
    if negb (int32_in e) then Panic 3
    else
      let a := dzc base * 10 ^ 18 in
      let aa := if e <? 0 then a else a * 10 ^ e in
      let bb := if e <? 0 then price * 10 ^ (- e) else price in
      let q := Z.quot aa bb in
      let r := Z.rem aa bb in
      let q' := if 2 * Z.abs r <? Z.abs bb then q else if Z.sgn a * Z.sgn price <? 0 then q - 1 else q + 1 in
      Ok (q' * 100).

(* ---- what the data source returned: None = that field's fetch failed ---- *)
Record ds234 := {
  ds_bm : option Z; ds_bid : option Z; ds_ask : option Z; ds_mfts : option Z;
  ds_link : option Z; ds_native : option Z; ds_status : option Z }.

Definition enc_price (v : option Z) : option bytes :=
  match v with Some x => match encode_int192 x with Ok b => Some b | _ => None end | None => None end.
Definition max_int192_enc : bytes := match encode_int192 max_int192 with Ok b => b | _ => [] end.

(* (valid flag, bytes) of a fee field *)
Definition fee_field (base : dec) (price : option Z) : res (bool * bytes) :=
  match price with
  | None => Ok (false, [])
  | Some p =>
      if p <=? -1 then Ok (true, max_int192_enc)       (* MissingPrice: the maximal fee *)
      else match merc_calc_fee p base with
           | Panic s => Panic s
           | Err e => Err e
           | Ok fee => match encode_int192 fee with Ok b => Ok (true, b) | _ => Ok (false, []) end
           end
  end.

Definition opt_or {A} (o : option A) (d : A) : A := match o with Some x => x | None => d end.
Definition is_some {A} (o : option A) : bool := match o with Some _ => true | None => false end.

(* ver = 2, 3, 4.  ds_fail: DataSource.Observe itself returned an error.  now: time.Now().Unix() *)
Definition merc_observe234 (ver : Z) (base : dec) (now : Z) (ds_fail : bool) (ds : ds234) : res mobs :=
  if ds_fail then Err EOther
  else if max_uint32 <? now then Err EOutOfRange
  else
    let bm := enc_price (ds_bm ds) in
    let bid := if ver =? 3 then enc_price (ds_bid ds) else None in
    let ask := if ver =? 3 then enc_price (ds_ask ds) else None in
    let pv :=
      if ver =? 3 then
        is_some bm && is_some bid && is_some ask &&
        negb ((opt_or (ds_bm ds) 0 <? opt_or (ds_bid ds) 0) || (opt_or (ds_ask ds) 0 <? opt_or (ds_bm ds) 0))
      else is_some bm in
    l <- fee_field base (ds_link ds) ;;
    n <- fee_field base (ds_native ds) ;;
    Ok {| mo_ts := now; mo_prices_valid := pv; mo_bm := opt_or bm []; mo_bid := opt_or bid []; mo_ask := opt_or ask [];
          mo_mfts_valid := is_some (ds_mfts ds); mo_mfts := opt_or (ds_mfts ds) 0;
          mo_link_valid := fst l; mo_link := snd l; mo_native_valid := fst n; mo_native := snd n;
          mo_status_valid := (ver =? 4) && is_some (ds_status ds);
          mo_status := if ver =? 4 then opt_or (ds_status ds) 0 else 0 |}.

(* ---- v1 ---- *)
Record ds1 := {
  d1_bm : option Z; d1_bid : option Z; d1_ask : option Z;
  d1_cur_num : option Z; d1_cur_hash : option bytes; d1_cur_ts : option Z;
  d1_mfb : option Z; d1_blocks : list block }.

(* prev_nil: no previous report.  The timestamp is uint32(time.Now().Unix()) — a truncation, no range check in v1 *)
Definition merc_observe1 (now : Z) (prev_nil : bool) (ds_fail : bool) (ds : ds1) : res mobs1 :=
  if ds_fail then Err EOther
  else
    let mf :=
      if prev_nil then
        match d1_mfb ds with
        | None => None
        | Some m => match d1_cur_num ds with
                    | Some c => if c <? m then None else Some m      (* out-of-date RPC: ignored *)
                    | None => Some m
                    end
        end
      else None in
    let bm := enc_price (d1_bm ds) in let bid := enc_price (d1_bid ds) in let ask := enc_price (d1_ask ds) in
    Ok {| m1_ts := now mod 2 ^ 32; m1_prices_valid := is_some bm && is_some bid && is_some ask;
          m1_bm := opt_or bm []; m1_bid := opt_or bid []; m1_ask := opt_or ask [];
          m1_blocks := d1_blocks ds;
          m1_cur_valid := is_some (d1_cur_num ds) && is_some (d1_cur_hash ds) && is_some (d1_cur_ts ds);
          m1_cur := {| bnum := opt_or (d1_cur_num ds) 0; bhash := opt_or (d1_cur_hash ds) []; bts := opt_or (d1_cur_ts ds) 0 |};
          m1_mfb_valid := is_some mf; m1_mfb := opt_or mf 0 |}.

(* ---- proto.Marshal ---- *)
Definition u64w (v : Z) : Z := v mod 2 ^ 64.
Definition b2z (b : bool) : Z := if b then 1 else 0.

Definition merc_encode234 (ver : Z) (m : mobs) : bytes :=
  if ver =? 2 then
    f_varint 1 (mo_ts m) ++ f_bytes 2 (mo_bm m) ++ f_varint 3 (b2z (mo_prices_valid m)) ++
    f_varint 4 (u64w (mo_mfts m)) ++ f_varint 5 (b2z (mo_mfts_valid m)) ++
    f_bytes 6 (mo_link m) ++ f_varint 7 (b2z (mo_link_valid m)) ++
    f_bytes 8 (mo_native m) ++ f_varint 9 (b2z (mo_native_valid m))
  else
    f_varint 1 (mo_ts m) ++ f_bytes 2 (mo_bm m) ++ f_bytes 3 (mo_bid m) ++ f_bytes 4 (mo_ask m) ++
    f_varint 5 (b2z (mo_prices_valid m)) ++
    f_varint 6 (u64w (mo_mfts m)) ++ f_varint 7 (b2z (mo_mfts_valid m)) ++
    f_bytes 8 (mo_link m) ++ f_varint 9 (b2z (mo_link_valid m)) ++
    f_bytes 10 (mo_native m) ++ f_varint 11 (b2z (mo_native_valid m)) ++
    f_varint 12 (mo_status m) ++ f_varint 13 (b2z (mo_status_valid m)).

Definition block_encode (b : block) : bytes := f_varint 1 (u64w (bnum b)) ++ f_bytes 2 (bhash b) ++ f_varint 3 (bts b).
Definition merc_encode1 (m : mobs1) : bytes :=
  f_varint 1 (m1_ts m) ++ f_bytes 2 (m1_bm m) ++ f_bytes 3 (m1_bid m) ++ f_bytes 4 (m1_ask m) ++
  f_varint 5 (b2z (m1_prices_valid m)) ++
  f_varint 6 (u64w (bnum (m1_cur m))) ++ f_bytes 7 (bhash (m1_cur m)) ++ f_varint 8 (bts (m1_cur m)) ++
  f_varint 9 (b2z (m1_cur_valid m)) ++
  f_varint 10 (u64w (m1_mfb m)) ++ f_varint 11 (b2z (m1_mfb_valid m)) ++
  flat_map (fun b => f_msg 12 (block_encode b)) (m1_blocks m).

(* MaxObservationLength as the real factories declare it to libocr (regenerated from /repo on every run) *)
Definition merc_limit (ver : Z) : Z :=
  if ver =? 1 then MercMaxObservationLength1 else if ver =? 2 then MercMaxObservationLength2
  else if ver =? 3 then MercMaxObservationLength3 else MercMaxObservationLength4.
