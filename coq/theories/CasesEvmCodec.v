(* CasesEvmCodec.v — evaluation of the `evmcodec` projection: ReportCodec.Encode / Verify of the three EVM codecs.
   Per case: (a) the model's encode/verify equals the implementation's; (b) the C12 checker (EvmSpec.v, independent
   of the model) on the bytes the implementation returned. *)
From DS Require Import Base EvmInt EvmCodecs EvmSpec.

Inductive evm_case :=
| ELegacy (o : option legacy_opts) (ns : nat) (r : report) (vok : bool) (out : res bytes)
| EUnpacked (o : option unpacked_opts) (ns : nat) (r : report) (vok : bool) (out : res bytes)
| EStream (o : option streamlined_opts) (ns : nat) (fmt : Z) (r : report) (vok : bool) (out : res bytes).

Definition out_agree (m i : res bytes) : bool :=
  match m, i with
  | Ok a, Ok b => bytes_eqb a b
  | Err _, Err _ => true
  | Panic _, Panic _ => true
  | _, _ => false
  end.

Definition evm_agrees (c : evm_case) : bool :=
  match c with
  | ELegacy o ns r vok out => out_agree (legacy_encode o r) out && Bool.eqb (legacy_verify o ns) vok
  | EUnpacked o ns r vok out => out_agree (unpacked_encode o r) out && Bool.eqb (unpacked_verify o ns) vok
  | EStream o ns fmt r vok out => out_agree (streamlined_encode o fmt r) out && Bool.eqb (streamlined_verify o ns) vok
  end.

(* C12 on the implementation's output. strict = true: the same, except that in the F3 region expiresAt is compared
   with the wrapped sum and in the F4 region a panic is tolerated — i.e. exactly the recorded findings and nothing else. *)
Definition c12_case (strict : bool) (c : evm_case) : bool :=
  match c with
  | ELegacy (Some o) ns r true out =>
      (negb (is_panic out) || (strict && f4_region (lo_fee o) r)) &&
      (if r_specimen r then negb (is_ok out) else true) &&
      match out with
      | Ok bs =>
          let o' := if strict then {| lo_fee := lo_fee o; lo_window := f3_adjust (lo_window o) r; lo_feed := lo_feed o; lo_mult := lo_mult o |} else o in
          legacy_spec o' r bs
      | _ => true
      end
  | EUnpacked (Some o) ns r true out =>
      (negb (is_panic out) || (strict && f4_region (uo_fee o) r)) &&
      (if r_specimen r then negb (is_ok out) else true) &&
      match out with
      | Ok bs =>
          let o' := if strict then {| uo_fee := uo_fee o; uo_window := f3_adjust (uo_window o) r; uo_feed := uo_feed o; uo_abi := uo_abi o |} else o in
          unpacked_spec o' r bs
      | _ => true
      end
  | EStream (Some o) ns fmt r true out =>
      negb (is_panic out) &&
      match out with Ok bs => streamlined_spec o fmt r bs | _ => true end
  | ELegacy _ _ _ _ out | EUnpacked _ _ _ _ out | EStream _ _ _ _ _ out => true
  end.

Definition case_out (c : evm_case) : res bytes :=
  match c with ELegacy _ _ _ _ o | EUnpacked _ _ _ _ o | EStream _ _ _ _ _ o => o end.
Definition case_vok (c : evm_case) : bool :=
  match c with ELegacy _ _ _ v _ | EUnpacked _ _ _ v _ | EStream _ _ _ _ v _ => v end.

Definition case_f4 (c : evm_case) : bool :=
  match c with
  | ELegacy (Some o) _ r _ _ => f4_region (lo_fee o) r
  | EUnpacked (Some o) _ r _ _ => f4_region (uo_fee o) r
  | _ => false
  end.
(* result: mismatches; C12 failures; C12 failures outside the recorded findings; panics (C11); panics outside the F4 region;
   [cases; verified; ok; err; panic] *)
Definition evm_eval (cs : list evm_case) :=
  (index_where (fun c => negb (evm_agrees c)) cs,
   index_where (fun c => negb (c12_case false c)) cs,
   index_where (fun c => negb (c12_case true c)) cs,
   index_where (fun c => is_panic (case_out c)) cs,
   index_where (fun c => is_panic (case_out c) && negb (case_f4 c)) cs,
   [length cs; length (filter case_vok cs); length (filter (fun c => is_ok (case_out c)) cs);
    length (filter (fun c => is_err (case_out c)) cs); length (filter (fun c => is_panic (case_out c)) cs)]).
