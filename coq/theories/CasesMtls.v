(* CasesMtls.v — evaluation of the `mtls` projection (C20). *)
From DS Require Import Base Locks.

Inductive mtls_case :=
| MHand (server_key client_key : key) (server_allow client_allow : list key) (established : bool)
| MVerify (raw : list cert) (allow : list key) (accepted : bool)
| MSeq (server_key client_key : key) (steps : list (list key * list key * bool))   (* same endpoints, lists replaced between connections *)
| MCtor (keys : list key) (ok : bool)
| MConc (ok : bool).                 (* concurrent stress / race detector verdict *)

Definition mtls_agrees (c : mtls_case) : bool :=
  match c with
  | MHand sk ck sa ca e => Bool.eqb (handshake sk ck sa ca) e
  | MVerify raw allow a => Bool.eqb (verify_peer raw allow) a
  | MSeq sk ck steps => forallb (fun st => Bool.eqb (handshake sk ck (fst (fst st)) (snd (fst st))) (snd st)) steps
  | MCtor ks ok => Bool.eqb (valid_keys ks) ok
  | MConc _ => true
  end.
(* C20 stated on the implementation's results, without the model's functions *)
Definition c20_case (c : mtls_case) : bool :=
  match c with
  | MHand sk ck sa ca e => Bool.eqb e (existsb (bytes_eqb ck) sa && existsb (bytes_eqb sk) ca)
  | MVerify raw allow a =>
      Bool.eqb a match raw with [CEd k] => existsb (bytes_eqb k) allow | _ => false end
  | MSeq sk ck steps => forallb (fun st => Bool.eqb (snd st) (existsb (bytes_eqb ck) (fst (fst st)) && existsb (bytes_eqb sk) (snd (fst st)))) steps
  | MCtor ks ok => Bool.eqb ok (negb (length ks =? 0)%nat && forallb (fun k => (length k =? 32)%nat) ks)
  | MConc ok => ok
  end.
Definition mtls_eval (cs : list mtls_case) :=
  (index_where (fun c => negb (mtls_agrees c)) cs, index_where (fun c => negb (c20_case c)) cs,
   [length (filter (fun c => match c with MHand _ _ _ _ true => true | _ => false end) cs);
    length (filter (fun c => match c with MHand _ _ _ _ false => true | _ => false end) cs);
    length (filter (fun c => match c with MVerify _ _ true => true | _ => false end) cs);
    length (filter (fun c => match c with MVerify _ _ false => true | _ => false end) cs);
    length (filter (fun c => match c with MCtor _ _ => true | _ => false end) cs);
    length (filter (fun c => match c with MConc _ => true | _ => false end) cs)]).
