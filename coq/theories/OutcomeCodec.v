(* OutcomeCodec.v — llo/outcome_codec_v0.go, outcome_codec_v1.go, outcome_codec_common.go at byte level:
   protobuf (proto3, deterministic marshalling, no map fields) of LLOOutcomeProtoV0 / V1. *)
From stdpp Require Import gmap.
From DS Require Import Base Decimal StreamValue Wire Sort Aggregators RepoConstants Outcome.
Open Scope Z_scope.

Definition stage_bytes (s : stage) : list Z :=
  match s with
  | Staging => str_bytes "staging"
  | Production => str_bytes "production"
  | Retired => str_bytes "retired"
  | OtherStage b => b
  end.
Definition stage_of_bytes (b : list Z) : stage :=
  if bool_decide (b = str_bytes "staging") then Staging
  else if bool_decide (b = str_bytes "production") then Production
  else if bool_decide (b = str_bytes "retired") then Retired
  else OtherStage b.

Definition sorted_entries {V} (m : gmap Z V) : list (Z * V) := isort (fun a b => fst a <? fst b) (map_to_list m).
Definition pair_less (a b : (Z * Z)) : bool := if fst a =? fst b then snd a <? snd b else fst a <? fst b.
Definition sorted_aggs (m : gmap (Z * Z) sval) : list ((Z * Z) * sval) := isort (fun a b => pair_less (fst a) (fst b)) (map_to_list m).

(* ---- encoders ---- *)
Definition enc_stream (s : Z * Z) : list Z := f_varint 1 (fst s) ++ f_varint 2 (snd s).
Definition enc_def (cd : chandef) : list Z :=
  f_varint 1 (cd_fmt cd) ++ flat_map (fun s => f_msg 2 (enc_stream s)) (cd_streams cd) ++ f_bytes 3 (cd_opts cd).
Definition enc_id_def (e : Z * chandef) : list Z := f_varint 1 (fst e) ++ f_msg 2 (enc_def (snd e)).
Definition enc_id_val (e : Z * Z) : list Z := f_varint 1 (fst e) ++ f_varint 2 (snd e).
Definition enc_lsv (v : sval) : list Z := f_varint 1 (sv_type v) ++ f_bytes 2 (sval_marshal v).
Definition enc_agg (e : (Z * Z) * sval) : list Z :=
  f_varint 1 (fst (fst e)) ++ f_msg 2 (enc_lsv (snd e)) ++ f_varint 3 (snd (fst e)).

Definition ascii_ok (b : list Z) : bool := forallb (fun x => (0 <=? x) && (x <? 128)) b.

Definition encode_outcome (pver : Z) (o : outcome) : res (list Z) :=
  if negb (ascii_ok (stage_bytes (o_stage o))) then Err EMalformed     (* proto3 string must be valid UTF-8 *)
  else if pver =? 0 then
    if bool_decide (map_Forall (fun _ v => v / ns_per_s <= max_uint32) (o_va o)) then
      if max_int64 <? o_ts o then Err EOutOfRange
      else Ok (f_bytes 1 (stage_bytes (o_stage o)) ++ f_varint 2 (o_ts o) ++
               flat_map (fun e => f_msg 3 (enc_id_def e)) (sorted_entries (o_defs o)) ++
               flat_map (fun e => f_msg 4 (enc_id_val (fst e, snd e / ns_per_s))) (sorted_entries (o_va o)) ++
               flat_map (fun e => f_msg 5 (enc_agg e)) (sorted_aggs (o_aggs o)))
    else Err EOutOfRange
  else Ok (f_bytes 1 (stage_bytes (o_stage o)) ++ f_varint 2 (o_ts o) ++
           flat_map (fun e => f_msg 3 (enc_id_def e)) (sorted_entries (o_defs o)) ++
           flat_map (fun e => f_msg 4 (enc_id_val e)) (sorted_entries (o_va o)) ++
           flat_map (fun e => f_msg 5 (enc_agg e)) (sorted_aggs (o_aggs o))).

(* ---- decoders (for arbitrary bytes) ---- *)
Definition u32 (v : Z) : Z := v mod 2 ^ 32.
Definition later_wins {K V} `{Countable K} (l : list (K * V)) : gmap K V := list_to_map (rev l).

Fixpoint sequence_res {A} (l : list (res A)) : res (list A) :=
  match l with
  | [] => Ok []
  | r :: rest => match r, sequence_res rest with
                 | Ok x, Ok xs => Ok (x :: xs)
                 | Panic s, _ => Panic s
                 | Err e, _ => Err e
                 | _, Panic s => Panic s
                 | _, Err e => Err e
                 end
  end.

Definition dec_stream (b : list Z) : res (Z * Z) :=
  match parse_fields b with
  | Some fs => Ok (u32 (last_varint 1 fs), u32 (last_varint 2 fs))
  | None => Err EMalformed
  end.
Definition dec_def (b : list Z) : res chandef :=
  match parse_fields b with
  | Some fs =>
      ss <- sequence_res (map dec_stream (all_bytes 2 fs)) ;;
      Ok {| cd_fmt := u32 (last_varint 1 fs); cd_streams := ss; cd_opts := last_bytes 3 fs |}
  | None => Err EMalformed
  end.
Definition dec_id_def (b : list Z) : res (Z * chandef) :=
  match parse_fields b with
  | Some fs =>
      match merged_msg 2 fs with
      | None => Err ENil                           (* nil channel definition *)
      | Some body => cd <- dec_def body ;; Ok (u32 (last_varint 1 fs), cd)
      end
  | None => Err EMalformed
  end.
Definition dec_id_val (b : list Z) : res (Z * Z) :=
  match parse_fields b with
  | Some fs => Ok (u32 (last_varint 1 fs), last_varint 2 fs)
  | None => Err EMalformed
  end.
Definition dec_agg (b : list Z) : res ((Z * Z) * sval) :=
  match parse_fields b with
  | Some fs =>
      match merged_msg 2 fs with
      | None => Err ENil
      | Some body =>
          match parse_lsv body with
          | None => Err EMalformed
          | Some (t, data) => v <- sval_unmarshal t data ;; Ok ((u32 (last_varint 1 fs), u32 (last_varint 3 fs)), v)
          end
      end
  | None => Err EMalformed
  end.

Definition decode_outcome (pver : Z) (bs : list Z) : res outcome :=
  match parse_fields bs with
  | None => Err EMalformed
  | Some fs =>
      let stage := last_bytes 1 fs in
      if negb (ascii_ok stage) then Err EMalformed else
      defs <- sequence_res (map dec_id_def (all_bytes 3 fs)) ;;
      aggs <- sequence_res (map dec_agg (all_bytes 5 fs)) ;;
      vas <- sequence_res (map dec_id_val (all_bytes 4 fs)) ;;
      let ts := last_varint 2 fs in
      if (pver =? 0) && (2 ^ 63 <=? ts) then Err EInvalid       (* negative int64 *)
      else Ok {| o_stage := stage_of_bytes stage; o_ts := ts; o_defs := later_wins defs;
                 o_va := later_wins (map (fun e => (fst e, if pver =? 0 then u32 (snd e) * ns_per_s else snd e)) vas);
                 o_aggs := later_wins aggs |}
  end.
