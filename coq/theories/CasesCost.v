(* CasesCost.v — evaluation of the `cost` projection (C19): measured allocation and CPU time against a fixed
   amount per input byte plus a fixed amount per call. *)
From DS Require Import Base.

Inductive cost_case := CCost (size alloc_bytes cpu_us : Z) (panicked : bool).
(* per call: 8 MiB and 1 s; per input byte: 256 bytes allocated and 2 microseconds *)
Definition cost_ok (c : cost_case) : bool :=
  match c with CCost size alloc us p => negb p && (alloc <=? 8 * 2 ^ 20 + 256 * size) && (us <=? 1000000 + 2 * size) end.
Definition cost_eval (cs : list cost_case) :=
  (@nil nat, index_where (fun c => negb (cost_ok c)) cs,
   [length cs; length (filter (fun c => match c with CCost s _ _ _ => 100000 <=? s end) cs)]).
