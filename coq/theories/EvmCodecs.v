(* EvmCodecs.v — model of llo/reportcodecs/evm: fees.go CalculateFee, report_codec_common.go ExtractTimestamps and
   ABIEncoder, the three report codecs' Encode/Verify (premium legacy -> v3 BuildReport, ABI-encode-unpacked,
   streamlined), over *parsed* channel options (the JSON decoding of opts is done by the real code in the harness).
   shopspring/decimal Mul / DivRound / BigInt are modelled with their panics. *)
From DS Require Export EvmInt StreamValue Outcome.

(* numeric coefficient (math/big results are normalised: negative zero reads as 0) *)
Definition dz (d : dec) : Z := big_toZ (dcoef d).
Definition int32_okb (e : Z) : bool := (- 2 ^ 31 <=? e) && (e <? 2 ^ 31).
Definition dzero : dec := mkdec 0 0.

(* Decimal.Mul: panics when the summed exponent leaves int32 *)
Definition dec_mul (a b : dec) : res dec :=
  let e := dexp a + dexp b in
  if int32_okb e then Ok (mkdec (dz a * dz b) e) else Panic 2.

(* Decimal.BigInt = rescale(0).value: exact for exp >= 0, big.Int.Quo (truncation toward zero) otherwise *)
Definition dec_bigint (d : dec) : Z :=
  if dexp d =? 0 then dz d
  else if 0 <? dexp d then dz d * 10 ^ dexp d
  else Z.quot (dz d) (10 ^ (- dexp d)).

(* d.Mul(decimal.NewFromBigInt(m, 0)).BigInt() *)
Definition apply_mult (d : dec) (m : Z) : res Z :=
  p <- dec_mul d (mkdec m 0) ;; Ok (dec_bigint p).

(* CalculateFee(tokenPriceInUSD, baseUSDFee): DivRound(price, 18) (QuoRem panics when ea - eb + 18 leaves int32;
   the rounding step compares 2|r| with the scaled divisor: half away from zero), then Mul(1e18).BigInt(). *)
Definition calculate_fee (price base : dec) : res Z :=
  if (dz base <=? 0) || (dz price <=? 0) then Ok 0
  else
    let e := dexp base - dexp price + 18 in
    if negb (int32_okb e) then Panic 3
    else
      let aa := if e <? 0 then dz base else dz base * 10 ^ e in
      let bb := if e <? 0 then dz price * 10 ^ (- e) else dz price in
      let q := aa / bb in
      let r := aa mod bb in
      Ok (if 2 * r <? bb then q else q + 1).

Definition max_uint32 : Z := 2 ^ 32 - 1.

(* ExtractTimestamps (after the B3 repair: validAfterSeconds = MaxUint32 is refused because validFrom = it + 1) *)
Definition extract_timestamps (va ts : Z) : res (Z * Z) :=
  let vas := va / 10 ^ 9 in
  let ots := ts / 10 ^ 9 in
  if vas >=? max_uint32 then Err EOutOfRange
  else if ots >? max_uint32 then Err EOutOfRange
  else Ok (vas, ots).

(* a uint32 addition: wraps (known finding F3 for expiresAt) *)
Definition add_u32 (a b : Z) : Z := (a + b) mod 2 ^ 32.

(* go-ethereum abi packing of one static word: math.U256Bytes *)
Definition word (v : Z) : bytes := be_bytes 32 (v mod 2 ^ 256).

(* extractPrice *)
Definition extract_price (v : option sval) : res dec :=
  match v with
  | None => Ok dzero
  | Some (SDec d) => Ok d
  | Some (SQuote _ bm _) => Ok bm
  | Some (STsv _ _) => Err EUnsupported
  end.

(* ---- parsed channel options ---- *)
Record enc1 := { e_type : bytes; e_mult : option Z }.            (* singleABIEncoder *)
Definition abienc := list enc1.                                  (* ABIEncoder.encoders *)
Record legacy_opts := { lo_fee : dec; lo_window : Z; lo_feed : bytes; lo_mult : option Z }.
Record unpacked_opts := { uo_fee : dec; uo_window : Z; uo_feed : bytes; uo_abi : list abienc }.
Record streamlined_opts := { so_feed : option bytes; so_abi : list abienc }.

Definition mult_of (e : enc1) : Z := match e_mult e with Some m => m | None => 1 end.
Definition s_bytes0 : bytes := [98; 121; 116; 101; 115; 48].     (* "bytes0" *)
Definition is_bytes0 (e : enc1) : bool := bytes_eqb (e_type e) s_bytes0.

(* ---- ABIEncoder.EncodePacked ---- *)
Definition single_packed (e : enc1) (v : sval) : res bytes :=
  if is_bytes0 e then Ok []
  else match v with
       | SDec d => x <- apply_mult d (mult_of e) ;; encode_packed x (e_type e)
       | _ => Err EUnsupported
       end.
Definition single_u64_packed (e : enc1) (t : Z) : res bytes :=
  if is_bytes0 e then Ok [] else encode_packed (t * mult_of e) (e_type e).
Definition abi_packed (a : abienc) (v : option sval) : res bytes :=
  match v with
  | Some (SDec d) => match a with [e] => single_packed e (SDec d) | _ => Err EInvalid end
  | Some (STsv t inner) =>
      match a with
      | [e0; e1] => ts <- single_u64_packed e0 t ;; dv <- single_packed e1 inner ;; Ok (ts ++ dv)
      | _ => Err EInvalid
      end
  | _ => Err EUnsupported
  end.

(* ---- ABIEncoder.EncodePadded ---- *)
Definition single_dec_padded (e : enc1) (d : dec) : res bytes :=
  x <- apply_mult d (mult_of e) ;; encode_padded x (e_type e).
Definition abi_padded (a : abienc) (v : option sval) : res bytes :=
  match v with
  | Some (SDec d) => match a with [e] => single_dec_padded e d | _ => Err EInvalid end
  | Some (STsv t inner) =>
      match a with
      | [e0; e1] =>
          ts <- encode_padded (t * mult_of e0) (e_type e0) ;;
          match inner with
          | SDec d => dv <- single_dec_padded e1 d ;; Ok (ts ++ dv)
          | _ => Err EUnsupported
          end
      | _ => Err EInvalid
      end
  | _ => Err EUnsupported
  end.

(* encode every value with its encoder; a Go error at any index makes the whole call fail (errors are joined) *)
Fixpoint encode_all (f : abienc -> option sval -> res bytes) (abi : list abienc) (vs : list (option sval)) : res bytes :=
  match abi, vs with
  | [], [] => Ok []
  | a :: abi', v :: vs' =>
      match f a v with
      | Ok b => rest <- encode_all f abi' vs' ;; Ok (b ++ rest)
      | Err e => match encode_all f abi' vs' with Panic s => Panic s | _ => Err e end
      | Panic s => Panic s
      end
  | _, _ => Err EInvalid
  end.

Definition max_uint192 : Z := 2 ^ 192 - 1.
Definition max_int192' : Z := 2 ^ 191 - 1.
Definition min_int192' : Z := - 2 ^ 191.

(* ---- premium legacy: ReportCodecPremiumLegacy.Encode -> v3.BuildReport (with the D6 range checks) ---- *)
Definition legacy_encode (o : option legacy_opts) (r : report) : res bytes :=
  if r_specimen r then Err EUnsupported
  else match r_values r with
  | [v0; v1; v2] =>
      np <- extract_price v0 ;;
      lp <- extract_price v1 ;;
      match v2 with
      | Some (SQuote bid bm ask) =>
          match o with
          | None => Err EMalformed
          | Some o =>
              match lo_mult o with
              | Some 0 => Err EInvalid
              | _ =>
                  let m := match lo_mult o with Some m => m | None => 1 end in
                  tt <- extract_timestamps (r_va r) (r_ts r) ;;
                  let '(vas, ots) := tt in
                  nf <- calculate_fee np (lo_fee o) ;;
                  lf <- calculate_fee lp (lo_fee o) ;;
                  xbm <- apply_mult bm m ;;
                  xbid <- apply_mult bid m ;;
                  xask <- apply_mult ask m ;;
                  if (nf <? 0) || (lf <? 0) || (max_uint192 <? nf) || (max_uint192 <? lf) then Err EOutOfRange
                  else if forallb (fun x => (min_int192' <=? x) && (x <=? max_int192')) [xbm; xbid; xask] then
                    Ok (lo_feed o ++ word (vas + 1) ++ word ots ++ word nf ++ word lf ++
                        word (add_u32 ots (lo_window o)) ++ word xbm ++ word xbid ++ word xask)
                  else Err EOutOfRange
              end
          end
      | _ => Err EUnsupported
      end
  | _ => Err EInvalid
  end.

Definition zero32 : bytes := repeat 0 32.
Definition legacy_verify (o : option legacy_opts) (nstreams : nat) : bool :=
  match o with
  | None => false
  | Some o => negb (dz (lo_fee o) <? 0) && negb (bytes_eqb (lo_feed o) zero32) && (nstreams =? 3)%nat
  end.

(* ---- ABI-encode-unpacked ---- *)
Definition unpacked_encode (o : option unpacked_opts) (r : report) : res bytes :=
  if r_specimen r then Err EUnsupported
  else match r_values r with
  | v0 :: v1 :: rest =>
      np <- extract_price v0 ;;
      lp <- extract_price v1 ;;
      match o with
      | None => Err EMalformed
      | Some o =>
          tt <- extract_timestamps (r_va r) (r_ts r) ;;
          let '(vas, ots) := tt in
          nf <- calculate_fee np (uo_fee o) ;;
          lf <- calculate_fee lp (uo_fee o) ;;
          if (nf <? 0) || (lf <? 0) || (max_uint192 <? nf) || (max_uint192 <? lf) then Err EOutOfRange
          else
            payload <- encode_all abi_padded (uo_abi o) rest ;;
            Ok (uo_feed o ++ word (vas + 1) ++ word ots ++ word nf ++ word lf ++ word (add_u32 ots (uo_window o)) ++ payload)
      end
  | _ => Err EInvalid
  end.

Definition unpacked_verify (o : option unpacked_opts) (nstreams : nat) : bool :=
  match o with
  | None => false
  | Some o => negb (dz (uo_fee o) <? 0) && negb (bytes_eqb (uo_feed o) zero32) && (3 <=? nstreams)%nat &&
              (length (uo_abi o) =? nstreams - 2)%nat
  end.

(* ---- streamlined ---- *)
(* the first failing encoder aborts the loop *)
Fixpoint packed_loop (abi : list abienc) (vs : list (option sval)) (acc : bytes) : res bytes :=
  match abi, vs with
  | a :: abi', v :: vs' => b <- abi_packed a v ;; packed_loop abi' vs' (acc ++ b)
  | _, _ => Ok acc
  end.

Definition streamlined_encode (o : option streamlined_opts) (fmt : Z) (r : report) : res bytes :=
  match o with
  | None => Err EMalformed
  | Some o =>
      let prefix := match so_feed o with
                    | Some f => f
                    | None => be_bytes 4 (fmt mod 2 ^ 32) ++ be_bytes 4 (r_chan r)
                    end in
      if negb (length (so_abi o) =? length (r_values r))%nat then Err EInvalid
      else packed_loop (so_abi o) (r_values r) (prefix ++ be_bytes 8 (r_va r))
  end.

Definition streamlined_verify (o : option streamlined_opts) (nstreams : nat) : bool :=
  match o with
  | None => false
  | Some o => (length (so_abi o) =? nstreams)%nat
  end.
