(* JsonReportBytes.v — llo/json_report_codec.go at BYTE level: what json.Marshal writes for the `encode` struct of
   JSONReportCodec.Encode (fields in declaration order, ConfigDigest as its hex text, Values as an array of
   {"t":<type>,"v":"<escaped text>"} objects, Specimen as true/false), and a reader for exactly that shape.
   encoding/json accepts much more than this reader (whitespace, any field order, duplicates...): not modelled. *)
From DS Require Import Base Decimal StreamValue TextForms.
Open Scope Z_scope.

Definition s_k1 : bytes := str_bytes "{""ConfigDigest"":""".
Definition s_k2 : bytes := str_bytes """,""SeqNr"":".
Definition s_k3 : bytes := str_bytes ",""ChannelID"":".
Definition s_k4 : bytes := str_bytes ",""ValidAfterNanoseconds"":".
Definition s_k5 : bytes := str_bytes ",""ObservationTimestampNanoseconds"":".
Definition s_k6 : bytes := str_bytes ",""Values"":[".
Definition s_k7 : bytes := str_bytes "],""Specimen"":".
Definition s_true : bytes := str_bytes "true}".
Definition s_false : bytes := str_bytes "false}".

Fixpoint join_values (l : list (Z * bytes)) : bytes :=
  match l with [] => [] | [e] => json_tt (fst e) (snd e) | e :: r => json_tt (fst e) (snd e) ++ 44 :: join_values r end.

Definition json_report_bytes (j : jreport) : bytes :=
  s_k1 ++ j_digest j ++ s_k2 ++ nat_string (j_seq j) ++ s_k3 ++ nat_string (j_chan j) ++ s_k4 ++ nat_string (j_va j) ++
  s_k5 ++ nat_string (j_ts j) ++ s_k6 ++ join_values (j_values j) ++ s_k7 ++ (if j_specimen j then s_true else s_false).

(* one {"t":..,"v":".."} object at the head of s: (type, text, rest) *)
Definition parse_tt_head (s : bytes) : option (Z * bytes * bytes) :=
  match is_prefix s_j1 s with
  | Some s1 =>
      let '(ds, s2) := span is_digit s1 in
      match ds with
      | [] => None
      | _ => match is_prefix s_j2 s2 with
             | Some s3 => match json_unesc s3 with
                          | Some (v, 125 :: tl) => Some (digits_val ds, v, tl)
                          | _ => None
                          end
             | None => None
             end
      end
  | None => None
  end.
(* the elements of the Values array up to (not including) the closing bracket *)
Fixpoint parse_values (fuel : nat) (s : bytes) : option (list (Z * bytes) * bytes) :=
  match fuel with
  | O => None
  | S n =>
      match parse_tt_head s with
      | Some (t, v, 44 :: rest) => match parse_values n rest with Some (es, r) => Some ((t, v) :: es, r) | None => None end
      | Some (t, v, rest) => Some ([(t, v)], rest)
      | None => None
      end
  end.
Definition is_hex_char (c : Z) : bool := is_digit c || ((97 <=? c) && (c <=? 102)).

Definition json_report_parse (s : bytes) : option jreport :=
  match is_prefix s_k1 s with None => None | Some r1 =>
  let '(dg, r2) := span is_hex_char r1 in
  match is_prefix s_k2 r2 with None => None | Some r3 =>
  let '(sq, r4) := span is_digit r3 in
  match sq, is_prefix s_k3 r4 with | _ :: _, Some r5 =>
  let '(ch, r6) := span is_digit r5 in
  match ch, is_prefix s_k4 r6 with | _ :: _, Some r7 =>
  let '(va, r8) := span is_digit r7 in
  match va, is_prefix s_k5 r8 with | _ :: _, Some r9 =>
  let '(ts, r10) := span is_digit r9 in
  match ts, is_prefix s_k6 r10 with | _ :: _, Some r11 =>
    let vals := match is_prefix s_k7 r11 with
                | Some _ => Some ([], r11)                           (* empty array *)
                | None => parse_values (S (length r11)) r11 end in
    match vals with
    | Some (vs, r12) =>
        match is_prefix s_k7 r12 with
        | Some r13 =>
            let mk b := {| j_digest := dg; j_seq := digits_val sq; j_chan := digits_val ch; j_va := digits_val va;
                           j_ts := digits_val ts; j_values := vs; j_specimen := b |} in
            if bytes_eqb r13 s_true then Some (mk true) else if bytes_eqb r13 s_false then Some (mk false) else None
        | None => None
        end
    | None => None
    end
  | _, _ => None end | _, _ => None end | _, _ => None end | _, _ => None end end end.

(* the same reader for a report that is followed by more text (the report embedded in the packed tuple): returns the rest *)
Definition json_report_parse_rest (s : bytes) : option (jreport * bytes) :=
  match is_prefix s_k1 s with None => None | Some r1 =>
  let '(dg, r2) := span is_hex_char r1 in
  match is_prefix s_k2 r2 with None => None | Some r3 =>
  let '(sq, r4) := span is_digit r3 in
  match sq, is_prefix s_k3 r4 with | _ :: _, Some r5 =>
  let '(ch, r6) := span is_digit r5 in
  match ch, is_prefix s_k4 r6 with | _ :: _, Some r7 =>
  let '(va, r8) := span is_digit r7 in
  match va, is_prefix s_k5 r8 with | _ :: _, Some r9 =>
  let '(ts, r10) := span is_digit r9 in
  match ts, is_prefix s_k6 r10 with | _ :: _, Some r11 =>
    let vals := match is_prefix s_k7 r11 with
                | Some _ => Some ([], r11)
                | None => parse_values (S (length r11)) r11 end in
    match vals with
    | Some (vs, r12) =>
        match is_prefix s_k7 r12 with
        | Some r13 =>
            let mk b := {| j_digest := dg; j_seq := digits_val sq; j_chan := digits_val ch; j_va := digits_val va;
                           j_ts := digits_val ts; j_values := vs; j_specimen := b |} in
            match is_prefix s_true r13 with
            | Some rest => Some (mk true, rest)
            | None => match is_prefix s_false r13 with Some rest => Some (mk false, rest) | None => None end
            end
        | None => None
        end
    | None => None
    end
  | _, _ => None end | _, _ => None end | _, _ => None end | _, _ => None end end end.
