(* PluginFactory.v — llo/plugin.go NewReportingPlugin: the configuration a plugin instance runs with is what the two
   config decoders accept (onchain: predecessor digest; offchain: protocol version, minimum report interval). *)
From stdpp Require Import gmap.
From DS Require Import Base Config Outcome.
Open Scope Z_scope.

Definition plugin_factory_cfg (f : nat) (onchain offchain : list Z) : res cfg :=
  match llo_onchain_decode onchain with
  | Panic s => Panic s | Err e => Err e
  | Ok oc =>
      match offchain_decode offchain with
      | Panic s => Panic s | Err e => Err e
      | Ok off => Ok {| c_f := f; c_pver := oc_version off; c_interval := oc_min_interval off;
                        c_has_pred := match lo_pred oc with Some _ => true | None => false end |}
      end
  end.
