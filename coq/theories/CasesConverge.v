(* CasesConverge.v — evaluation of the `converge` projection (C14). *)
From stdpp Require Import gmap.
From DS Require Import Base Sort RepoConstants Outcome Observe Converge.
Open Scope Z_scope.

Record cround := {
  cr_votes : list (bool * list Z * gmap Z chandef);  (* accepted observations: honest?, removal votes, update votes *)
  cr_honest_valid : bool;                            (* every correct node's observation passed ValidateObservation *)
  cr_refused : bool;                                 (* a correct node's Observation returned an error *)
  cr_out_ok : bool;
  cr_removed : list Z;                               (* implementation: ids dropped by this round *)
  cr_upserts : list (Z * chandef) }.                 (* implementation: ids added or replaced by this round *)
Record conv_case := { cc_f : nat; cc_start : gmap Z chandef; cc_target : gmap Z chandef; cc_rounds : list cround }.

(* compact literals for large generated channel sets *)
Fixpoint seq_streams_aux (n : nat) (id : Z) (odd : bool) (agg alt : Z) : list (Z * Z) :=
  match n with
  | O => []
  | S k => (id, if odd && negb (alt =? 0) then alt else agg) :: seq_streams_aux k (id + 1) (negb odd) agg alt
  end.
Definition seq_streams (from count agg alt : Z) : list (Z * Z) := seq_streams_aux (Z.to_nat count) from false agg alt.
Definition big_def (fmt from count agg alt : Z) : chandef := {| cd_fmt := fmt; cd_streams := seq_streams from count agg alt; cd_opts := [] |}.
Definition range_defs (from to fmt base agg : Z) : list (Z * chandef) :=
  map (fun i => let c := from + Z.of_nat i in (c, {| cd_fmt := fmt; cd_streams := [(base + c, agg)]; cd_opts := [] |}))
      (seq 0 (Z.to_nat (to - from + 1))).

Definition obs_of (v : bool * list Z * gmap Z chandef) : observation :=
  {| ob_att := NoAttest; ob_retire := false; ob_ts := 0; ob_removes := snd (fst v); ob_updates := snd v; ob_values := ∅ |}.
Definition prod_outcome (defs : gmap Z chandef) : outcome :=
  {| o_stage := Production; o_ts := 0; o_defs := defs; o_va := ∅; o_aggs := ∅ |}.
Definition codec_any (_ : chandef) : bool := true.

Record cacc := { ca_prev : gmap Z chandef; ca_k : nat; ca_mismatch : bool; ca_fail : bool; ca_strict : bool; ca_done : bool }.

Definition conv_round (f : nat) (target : gmap Z chandef) (budget : nat) (target_ok f1 : bool) (a : cacc) (r : cround) : cacc :=
  let prev := ca_prev a in
  let obs := map obs_of (cr_votes r) in
  let model_next := new_defs (fun (_ : Z) (_ : chandef) => ([] : list Z)) f false prev obs in
  let impl_next := if cr_out_ok r then fold_left (fun m kv => <[fst kv := snd kv]> m) (cr_upserts r) (foldr delete prev (cr_removed r)) else prev in
  let agree := negb (cr_out_ok r) || bool_decide (model_next = impl_next) in
  let '(rm, up) := honest_votes codec_any (prod_outcome prev) target in
  let votes_ok := forallb (fun v : bool * list Z * gmap Z chandef => if fst (fst v) then bool_decide ((list_to_set (snd (fst v)) : gset Z) = list_to_set rm) && bool_decide (snd v = up) else true) (cr_votes r) in
  let cap_ok := (size impl_next <=? chan_cap)%nat in
  let k' := S (ca_k a) in
  let conv_ok := if (budget <=? k')%nat then bool_decide (impl_next = target) else true in
  let live := cr_honest_valid r && negb (cr_refused r) && cr_out_ok r in
  let full := cap_ok && (if target_ok then live && votes_ok && conv_ok else true) in
  (* outside the F1 region everything is required; inside it, a refusal (and what follows from it) is the recorded finding *)
  let strict := cap_ok && (if target_ok && negb f1 then live && votes_ok && conv_ok else true) in
  {| ca_prev := impl_next; ca_k := k'; ca_mismatch := ca_mismatch a || negb agree; ca_fail := ca_fail a || negb full;
     ca_strict := ca_strict a || negb strict; ca_done := bool_decide (impl_next = target) |}.

Definition conv_run (c : conv_case) : cacc :=
  let target_ok := verify_defs codec_any (cc_target c) in
  let f1 := negb (union_streams_ok (cc_start c) (cc_target c)) in
  fold_left (conv_round (cc_f c) (cc_target c) (rounds_bound (cc_start c) (cc_target c)) target_ok f1) (cc_rounds c)
    {| ca_prev := cc_start c; ca_k := O; ca_mismatch := false; ca_fail := false; ca_strict := false; ca_done := false |}.

(* result: histories where the model's new definitions differ; C14 failures; C14 failures outside the F1 region;
   [histories; rounds; histories ending at the target] *)
Definition conv_eval (cs : list conv_case) :=
  let rs := map conv_run cs in
  (index_where ca_mismatch rs, index_where ca_fail rs, index_where ca_strict rs,
   [length cs; sum_nat (map (fun c => length (cc_rounds c)) cs); length (filter ca_done rs)]).
