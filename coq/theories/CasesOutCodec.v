(* CasesOutCodec.v — evaluation of the `outcodec` projection (C10). *)
From stdpp Require Import gmap.
From DS Require Import Base Decimal StreamValue Wire Sort Aggregators Outcome OutcomeCodec CasesHistory.
Open Scope Z_scope.

Record outcodec_case := {
  oc_pver : Z;
  oc_in : option outcome;          (* the outcome handed to Encode (None: a hand-mutated message is decoded) *)
  oc_enc : res (list Z);           (* implementation: Encode *)
  oc_stable : bool;                (* implementation: repeated Encode, also of a rebuilt copy, gave identical bytes *)
  oc_raw : list Z;                 (* bytes handed to Decode *)
  oc_dec : res outcome;            (* implementation: Decode *)
  oc_reenc : res (list Z) }.       (* implementation: Encode (Decode raw) *)

Definition res_bytes_agree (m i : res (list Z)) : bool :=
  match m, i with Ok a, Ok b => bool_decide (a = b) | Err _, Err _ => true | Panic _, Panic _ => true | _, _ => false end.
Definition outcome_eqb (a b : outcome) : bool :=
  bool_decide (o_stage a = o_stage b) && (o_ts a =? o_ts b) && bool_decide (o_defs a = o_defs b) &&
  bool_decide (o_va a = o_va b) && bool_decide (o_aggs a = o_aggs b).
Definition res_outcome_eqb (m i : res outcome) : bool :=
  match m, i with Ok a, Ok b => outcome_eqb a b | Err _, Err _ => true | Panic _, Panic _ => true | _, _ => false end.

Definition outcodec_agrees (c : outcodec_case) : bool :=
  (match oc_in c with Some o => res_bytes_agree (encode_outcome (oc_pver c) o) (oc_enc c) | None => true end) &&
  res_outcome_eqb (decode_outcome (oc_pver c) (oc_raw c)) (oc_dec c).

(* C10 on the implementation's results: fields preserved (v0: validity starts to whole seconds), canonical, stable
   under decode-then-encode, never a panic *)
Definition norm_outcome (pver : Z) (o : outcome) : outcome :=
  {| o_stage := o_stage o; o_ts := o_ts o; o_defs := o_defs o;
     o_va := if pver =? 0 then (fun v => v / ns_per_s * ns_per_s) <$> o_va o else o_va o; o_aggs := o_aggs o |}.
Definition outcodec_spec_ok (c : outcodec_case) : bool :=
  negb (is_panic (oc_dec c)) && negb (is_panic (oc_enc c)) && negb (is_panic (oc_reenc c)) && oc_stable c &&
  match oc_in c, oc_enc c with
  | Some o, Ok bs =>
      match oc_dec c with
      | Ok o' => outcome_eqb o' (norm_outcome (oc_pver c) o)
      | _ => false
      end && res_bytes_agree (Ok bs) (oc_reenc c)
  | _, _ => true
  end &&
  (* whatever decodes re-encodes, and v0 never stores a wrapped value *)
  match oc_dec c with
  | Ok o' => match oc_reenc c with
             | Ok _ => true
             | Err _ => (oc_pver c =? 0)   (* only v0 has encode-side range limits; v1 re-encodes everything it decodes *)
             | Panic _ => false end
  | _ => true
  end.

Definition outcodec_branch (c : outcodec_case) : nat :=
  match oc_in c, oc_enc c, oc_dec c with
  | Some _, Ok _, _ => 0 | Some _, _, _ => 1 | None, _, Ok _ => 2 | None, _, _ => 3 end%nat.
Definition histogram4 (l : list nat) : list nat := map (fun b => length (List.filter (Nat.eqb b) l)) (seq 0 4).
Definition outcodec_eval (cs : list outcodec_case) : list nat * list nat * list nat :=
  (index_where (fun c => negb (outcodec_agrees c)) cs, index_where (fun c => negb (outcodec_spec_ok c)) cs,
   histogram4 (map outcodec_branch cs)).
