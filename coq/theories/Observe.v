(* Observe.v — llo/channel_definitions.go (VerifyChannelDefinitions, subtractChannelDefinitions),
   the vote computation of llo/plugin_observation.go, and llo/plugin.go ValidateObservation. *)
From stdpp Require Import gmap.
From DS Require Import Base Decimal StreamValue Sort Aggregators RepoConstants Outcome.
Open Scope Z_scope.

Definition def_ok (codec_ok : chandef -> bool) (cd : chandef) : bool :=
  negb (bool_decide (cd_streams cd = [])) &&
  (Z.of_nat (length (cd_streams cd)) <=? MaxStreamsPerChannel) &&
  forallb (fun s => negb (snd s =? 0)) (cd_streams cd) &&
  codec_ok cd.

(* the set of stream ids, as the key set of a map built by insertion (linear-logarithmic under vm_compute) *)
Definition unique_stream_set (defs : gmap Z chandef) : gmap Z unit :=
  fold_left (fun m sid => <[sid := tt]> m) (flat_map (fun kv => map fst (cd_streams (snd kv))) (map_to_list defs)) ∅.
Definition unique_stream_ids (defs : gmap Z chandef) : list Z := map fst (map_to_list (unique_stream_set defs)).

(* VerifyChannelDefinitions(codecs, defs) == nil; codec_ok = the Verify of the format's report codec *)
Definition verify_defs (codec_ok : chandef -> bool) (defs : gmap Z chandef) : bool :=
  (Z.of_nat (size defs) <=? MaxOutcomeChannelDefinitionsLength) &&
  forallb (fun kv => def_ok codec_ok (snd kv)) (map_to_list defs) &&
  (Z.of_nat (length (unique_stream_ids defs)) <=? MaxObservationStreamValuesLength).

Definition sorted_ids {V} (m : gmap Z V) : list Z := isort Z.ltb (map fst (map_to_list m)).

(* the votes a correct node casts: the first MaxObservationRemoveChannelIDsLength ids (ascending) present in
   the previous outcome but not expected, and the first MaxObservationUpdateChannelDefinitionsLength ids
   (ascending) whose expected definition is missing or different *)
Definition honest_votes (codec_ok : chandef -> bool) (prev : outcome) (expected : gmap Z chandef) : list Z * gmap Z chandef :=
  if bool_decide (o_stage prev = Retired) then ([], ∅)   (* a retired node sends a timestamp-only observation *)
  else if verify_defs codec_ok expected then
    let rm := firstn (Z.to_nat MaxObservationRemoveChannelIDsLength)
                     (filter (fun c => bool_decide (expected !! c = None)) (sorted_ids (o_defs prev))) in
    let up := firstn (Z.to_nat MaxObservationUpdateChannelDefinitionsLength)
                     (filter (fun c => negb (bool_decide (o_defs prev !! c = expected !! c))) (sorted_ids expected)) in
    (rm, list_to_map (omap (fun c => option_map (pair c) (expected !! c)) up))
  else ([], ∅).
