#!/bin/sh
# regenerate the Makefile from _CoqProject + the current file list and build everything
cd "$(dirname "$0")"
ls theories/*.v gen/*.v proofs/*.v props/*.v 2>/dev/null > .files
{ cat _CoqProject; cat .files; } > .CoqProject.full
coq_makefile -f .CoqProject.full -o Makefile >/dev/null
exec timeout "${COQ_TIMEOUT:-1500}" make -j16 -k "$@"
