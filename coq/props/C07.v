(* C07 — Mercury v1-v4: every emitted report satisfies the validity invariants.
   The report codec is external: `replen` is the length of what its BuildReport returns (or its error). *)
From DS Require Import Base Sort MercuryAgg Config MercuryReport MercuryReportProofs.

(* v2 / v3 / v4 (ver selects bid/ask handling and market status) *)
Theorem C07_v234_report_post : forall ver c prev replen obs rf,
  report234 ver c prev replen obs = Ok (true, Some rf) ->
  let paos := omap (parse234 ver) obs in
  mc_min c <= rf_bm rf <= mc_max c /\
  (ver = 3 -> mc_min c <= rf_bid rf /\ rf_bid rf <= rf_bm rf /\ rf_bm rf <= rf_ask rf /\ rf_ask rf <= mc_max c) /\
  0 <= rf_link rf <= max_int192 /\ 0 <= rf_native rf <= max_int192 /\
  rf_valid_from rf <= rf_ts rf /\ rf_ts rf <= rf_expires rf /\ rf_expires rf = rf_ts rf + mc_window c /\ rf_expires rf <= max_uint32 /\
  (ver = 4 -> (mc_f c + 1 <= count_Z (rf_status rf) (valid_vals (map p_status paos)))%nat) /\
  (exists n, replen rf = Ok n /\ (0 < n <= mc_maxlen c)%nat).
Proof. exact v234_report_post. Qed.
Print Assumptions C07_v234_report_post.

(* v1: block range and hash *)
Theorem C07_v1_report_post : forall c prev replen obs rf,
  report1 c prev replen obs = Ok (true, Some rf) ->
  mc_min c <= r1_bm rf <= mc_max c /\ mc_min c <= r1_bid rf <= mc_max c /\ mc_min c <= r1_ask rf <= mc_max c /\
  0 <= r1_valid_from rf <= bnum (r1_cur rf) /\ length (bhash (r1_cur rf)) = 32%nat /\
  (exists n, replen rf = Ok n /\ (0 < n <= mc_maxlen c)%nat).
Proof. exact v1_report_post. Qed.
Print Assumptions C07_v1_report_post.

(* whenever it does not report it hands no fields to the codec: result is an error or (false, nothing) *)
Theorem C07_decline_or_report : forall ver c prev replen obs b x,
  report234 ver c prev replen obs = Ok (b, x) -> (b = false /\ x = None) \/ (b = true /\ exists rf, x = Some rf).
Proof. exact v234_decline_or_report. Qed.

(* non-vacuity: a concrete v3 round that reports *)
Definition w (v : Z) : bytes := match encode_int192 v with Ok b => b | _ => [] end.
Definition C07_ob (ts p : Z) : mobs :=
  {| mo_ts := ts; mo_prices_valid := true; mo_bm := w p; mo_bid := w (p - 1); mo_ask := w (p + 1);
     mo_mfts_valid := true; mo_mfts := 90; mo_link_valid := true; mo_link := w 7; mo_native_valid := false; mo_native := [];
     mo_status_valid := false; mo_status := 0 |}.
Example C07_nv :
  report234 3 {| mc_f := 1; mc_min := 0; mc_max := 1000; mc_window := 10; mc_maxlen := 100 |} None (fun _ => Ok 50%nat)
            [C07_ob 100 500; C07_ob 101 502; C07_ob 99 (10 ^ 30); C07_ob 102 501]
  = Ok (true, Some {| rf_ts := 101; rf_valid_from := 91; rf_expires := 111; rf_bm := 502; rf_bid := 501; rf_ask := 503;
                      rf_link := 7; rf_native := 0; rf_status := 0 |}).
Proof. vm_compute. reflexivity. Qed.
