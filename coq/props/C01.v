(* C01 — consensus functions are deterministic: same inputs, byte-identical outputs.
   In the model every consensus function takes ALL its inputs as arguments (no hidden state), so "same result on
   every node / instance / restart" is functionality; what makes the model faithful on this point is (a) the
   theorems below — every place where the Go code ranges over a map is insensitive to the iteration order —
   and (b) the `determinism` projection: repeated evaluation on fresh plugin instances, byte comparison. *)
From stdpp Require Import gmap.
From DS Require Import Base Decimal StreamValue Sort Aggregators Outcome OutcomeProofs OutcomeOrder StepOrder NvHistory.
From DS Require MercuryAgg MercuryAggProofs ModeProofs CasesOutCodec.
Open Scope Z_scope.

(* sort.Slice over entries with pairwise distinct keys (strict total order): one result whatever the input order *)
Theorem C01_sort_of_distinct_keys_unique : forall {A} (less : A -> A -> bool),
  (forall a, less a a = false) -> (forall a b c, less a b = true -> less b c = true -> less a c = true) ->
  (forall a b, less a b = false -> less b a = true \/ a = b) ->
  forall l1 l2, Permutation l1 l2 -> List.NoDup l1 -> isort less l1 = isort less l2.
Proof. intros A less. exact (isort_perm_unique less). Qed.
Print Assumptions C01_sort_of_distinct_keys_unique.

(* Plugin.outcome: the removal loop and the update-candidate slice are filled in map order; the resulting channel
   definitions do not depend on it (h = MakeChannelHash, assumed to distinguish distinct definitions of one id) *)
Theorem C01_new_defs_order_independent : forall h,
  (forall c d1 d2, h c d1 = h c d2 -> d1 = d2) ->
  forall f retired prev obs removal_order cand_order,
  Permutation removal_order (removed_ids f obs) ->
  Permutation cand_order (update_candidates obs) ->
  new_defs_ordered h f retired prev obs removal_order cand_order = new_defs h f retired prev obs.
Proof. exact new_defs_order_independent. Qed.
Print Assumptions C01_new_defs_order_independent.

(* the WHOLE Plugin.outcome step: all five range-over-map sites of outcome() iterate in arbitrary orders `o`
   (each a permutation of the entries of the map it ranges over); the committed outcome is the same, and a round
   that fails fails under every order (res_equiv identifies error kinds: which message is produced first may differ) *)
Theorem C01_outcome_step_order_independent : forall h,
  (forall c d1 d2, h c d1 = h c d2 -> d1 = d2) ->
  forall o cf seq prev aos,
  (forall rr obs retired, accept_observations (c_has_pred cf) aos = Ok (rr, obs) ->
     orders_valid o cf prev obs (new_defs h (c_f cf) retired (o_defs prev) obs)) ->
  res_equiv (outcome_step_ordered h o cf seq prev aos) (outcome_step h cf seq prev aos).
Proof. exact outcome_step_order_independent. Qed.
Print Assumptions C01_outcome_step_order_independent.

(* the individual range sites *)
Theorem C01_aggregation_loop_order_independent : forall f prev obs (defs : gmap Z chandef) (order : list (Z * chandef)),
  Permutation order (map_to_list defs) ->
  res_equiv (aggs_ordered f prev obs order) (collect_aggs f prev obs (referenced_pairs defs)).
Proof. exact aggs_order_independent. Qed.
Theorem C01_valid_after_loops_order_independent : forall cf prev ts (va0 : gmap Z Z) (defs : gmap Z chandef) order1 order2,
  Permutation order1 (map_to_list (o_va prev)) -> Permutation order2 (map fst (map_to_list defs)) ->
  carry_ordered cf prev order1 =
    map_imap (fun c pva => Some (if is_reportable prev c (c_pver cf) (c_interval cf) then o_ts prev else pva)) (o_va prev) /\
  fill_ordered ts va0 order2 = va0 ∪ ((fun _ => ts) <$> defs).
Proof. intros. split; [apply carry_order_independent|apply fill_order_independent]; assumption. Qed.

(* Outcome.ReportableChannels *)
Theorem C01_reportable_channels_order_independent : forall cf o (order : list Z),
  Permutation order (map fst (map_to_list (o_defs o))) ->
  isort Z.ltb (List.filter (fun c => is_reportable o c (c_pver cf) (c_interval cf)) order) = reportable_channels cf o.
Proof. exact reportable_channels_order_independent. Qed.
Print Assumptions C01_reportable_channels_order_independent.

(* ModeAggregator: the tie-break among equally frequent candidates depends only on the multiset of values *)
Theorem C01_mode_order_independent : forall vs vs' f, Permutation vs vs' -> mode_agg vs f = mode_agg vs' f.
Proof. exact ModeProofs.mode_permutation_invariant. Qed.

(* Mercury frequency maps *)
Theorem C01_mercury_max_finalized_ts_order_independent : forall ks xs f,
  Permutation ks (MercuryAgg.nodup_Z (MercuryAgg.valid_vals xs)) ->
  MercuryAgg.max_finalized_ts_order ks xs f = MercuryAgg.max_finalized_ts xs f.
Proof. exact MercuryAggProofs.max_finalized_ts_order_independent. Qed.
Theorem C01_mercury_max_finalized_block_order_independent : forall ks xs f,
  Permutation ks (MercuryAgg.nodup_Z (MercuryAgg.valid_vals xs)) ->
  MercuryAgg.max_finalized_block_order ks xs f = MercuryAgg.max_finalized_block xs f.
Proof. exact MercuryAggProofs.max_finalized_block_order_independent. Qed.
Print Assumptions C01_mercury_max_finalized_block_order_independent.

(* the pre-repair comparator (channel id only) really was order dependent: two orders of the same two
   candidates give different channel definitions — the D1 witness *)
Definition cand_less_prefix (a b : Z * chandef) : bool := fst a <? fst b.
Example C01_prefix_order_dependent_refuted :
  exists (c1 c2 : Z * chandef),
    fold_left (fun m c => <[fst c := snd c]> m) (isort cand_less_prefix [c1; c2]) (∅ : gmap Z chandef) <>
    fold_left (fun m c => <[fst c := snd c]> m) (isort cand_less_prefix [c2; c1]) (∅ : gmap Z chandef).
Proof.
  exists (7, {| cd_fmt := 2; cd_streams := [(1, 1)]; cd_opts := [] |}), (7, {| cd_fmt := 2; cd_streams := [(2, 1)]; cd_opts := [] |}).
  vm_compute. intros H. discriminate.
Qed.

(* non-vacuity: round 7 of the concrete history (3 observations, remove 7 / add 8 / retire votes) evaluated with every
   map ranged over in REVERSE order gives the same outcome as the canonical step *)
Definition C01_nv_orders (cf : cfg) (prev : outcome) (aos : list (option observation)) : orders :=
  let obs := match accept_observations (c_has_pred cf) aos with Ok (_, l) => l | _ => [] end in
  let defs := new_defs nv_h (c_f cf) false (o_defs prev) obs in
  {| ord_rm := rev (removed_ids (c_f cf) obs); ord_cand := rev (update_candidates obs);
     ord_carry := rev (map_to_list (o_va prev)); ord_fill := rev (map fst (map_to_list defs)); ord_aggs := rev (map_to_list defs) |}.
Example C01_nv_step :
  match outcome_step_ordered nv_h (C01_nv_orders nv_cf p2 a3) nv_cf 3 p2 a3, outcome_step nv_h nv_cf 3 p2 a3 with
  | Ok a, Ok b => CasesOutCodec.outcome_eqb a b && bool_decide (o_defs a !! 7 = Some nv_def)
  | _, _ => false end = true.
Proof. vm_compute. reflexivity. Qed.
