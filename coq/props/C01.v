(* C01 — consensus functions are deterministic: same inputs, byte-identical outputs.
   In the model every consensus function takes ALL its inputs as arguments (no hidden state), so "same result on
   every node / instance / restart" is functionality; what makes the model faithful on this point is (a) the
   theorems below — every place where the Go code ranges over a map is insensitive to the iteration order —
   and (b) the `determinism` projection: repeated evaluation on fresh plugin instances, byte comparison. *)
From stdpp Require Import gmap.
From DS Require Import Base Decimal StreamValue Sort Aggregators Outcome OutcomeProofs OutcomeOrder.
From DS Require MercuryAgg MercuryAggProofs ModeProofs.
Open Scope Z_scope.

(* sort.Slice over entries with pairwise distinct keys (strict total order): one result whatever the input order *)
Theorem C01_sort_of_distinct_keys_unique : forall {A} (less : A -> A -> bool),
  (forall a, less a a = false) -> (forall a b c, less a b = true -> less b c = true -> less a c = true) ->
  (forall a b, less a b = false -> less b a = true \/ a = b) ->
  forall l1 l2, Permutation l1 l2 -> List.NoDup l1 -> isort less l1 = isort less l2.
Proof. intros A less. exact (isort_perm_unique less). Qed.
Print Assumptions C01_sort_of_distinct_keys_unique.

(* Plugin.outcome: the removal loop and the update-candidate slice are filled in map order; the resulting channel
   definitions do not depend on it (h = MakeChannelHash, assumed to distinguish distinct definitions of one id) *)
Theorem C01_new_defs_order_independent : forall h,
  (forall c d1 d2, h c d1 = h c d2 -> d1 = d2) ->
  forall f retired prev obs removal_order cand_order,
  Permutation removal_order (removed_ids f obs) ->
  Permutation cand_order (update_candidates obs) ->
  new_defs_ordered h f retired prev obs removal_order cand_order = new_defs h f retired prev obs.
Proof. exact new_defs_order_independent. Qed.
Print Assumptions C01_new_defs_order_independent.

(* Outcome.ReportableChannels *)
Theorem C01_reportable_channels_order_independent : forall cf o (order : list Z),
  Permutation order (map fst (map_to_list (o_defs o))) ->
  isort Z.ltb (List.filter (fun c => is_reportable o c (c_pver cf) (c_interval cf)) order) = reportable_channels cf o.
Proof. exact reportable_channels_order_independent. Qed.
Print Assumptions C01_reportable_channels_order_independent.

(* ModeAggregator: the tie-break among equally frequent candidates depends only on the multiset of values *)
Theorem C01_mode_order_independent : forall vs vs' f, Permutation vs vs' -> mode_agg vs f = mode_agg vs' f.
Proof. exact ModeProofs.mode_permutation_invariant. Qed.

(* Mercury frequency maps *)
Theorem C01_mercury_max_finalized_ts_order_independent : forall ks xs f,
  Permutation ks (MercuryAgg.nodup_Z (MercuryAgg.valid_vals xs)) ->
  MercuryAgg.max_finalized_ts_order ks xs f = MercuryAgg.max_finalized_ts xs f.
Proof. exact MercuryAggProofs.max_finalized_ts_order_independent. Qed.
Theorem C01_mercury_max_finalized_block_order_independent : forall ks xs f,
  Permutation ks (MercuryAgg.nodup_Z (MercuryAgg.valid_vals xs)) ->
  MercuryAgg.max_finalized_block_order ks xs f = MercuryAgg.max_finalized_block xs f.
Proof. exact MercuryAggProofs.max_finalized_block_order_independent. Qed.
Print Assumptions C01_mercury_max_finalized_block_order_independent.

(* the pre-repair comparator (channel id only) really was order dependent: two orders of the same two
   candidates give different channel definitions — the D1 witness *)
Definition cand_less_prefix (a b : Z * chandef) : bool := fst a <? fst b.
Example C01_prefix_order_dependent_refuted :
  exists (c1 c2 : Z * chandef),
    fold_left (fun m c => <[fst c := snd c]> m) (isort cand_less_prefix [c1; c2]) (∅ : gmap Z chandef) <>
    fold_left (fun m c => <[fst c := snd c]> m) (isort cand_less_prefix [c2; c1]) (∅ : gmap Z chandef).
Proof.
  exists (7, {| cd_fmt := 2; cd_streams := [(1, 1)]; cd_opts := [] |}), (7, {| cd_fmt := 2; cd_streams := [(2, 1)]; cd_opts := [] |}).
  vm_compute. intros H. discriminate.
Qed.
