(* C14 — LLO channel definitions converge to the agreed target in bounded rounds.
   Statements only; proofs are `exact <lemma>` into proofs/ConvergeProofs.v.
   The concrete step is Outcome.new_defs (plugin_outcome.go) on the votes of Observe.honest_votes (plugin_observation.go). *)
From stdpp Require Import gmap.
From DS Require Import Base RepoConstants StreamValue Outcome OutcomeCodec Observe ObservationCodec Converge ConvergeProofs ValidateProofs.
From DS Require OutcomeEndToEnd ReportsNoPanic OutcomeRoundTrip NvE2E HistoryLifts StepTheorems NvHistory.

(* the two vote limits in /repo are equal and positive, so the property's bound ceil(max(#remove, #add-or-replace)/5) applies *)
Example C14_gen_limits : rm_limit = vote_limit /\ (0 < vote_limit)%nat /\ vote_limit = 5%nat /\ chan_cap = 2000%nat.
Proof. repeat split; vm_compute; try reflexivity. lia. Qed.

(* at no point more than 2000 channels: for ANY votes *)
Theorem C14_cap_invariant : forall h f retired prev obs, (size prev <= chan_cap)%nat -> (size (new_defs h f retired prev obs) <= chan_cap)%nat.
Proof. exact cap_invariant. Qed.
Print Assumptions C14_cap_invariant.
(* hence a round never yields more channel reports than the outcome holds channels - at most MaxOutcomeChannelDefinitionsLength,
   which is the report count the plugin declares to libocr *)
Theorem C14_reports_count_le_channels : forall cf seq o, (length (snd (reports_of cf seq o)) <= size (o_defs o))%nat.
Proof. exact HistoryLifts.reports_count_le_channels. Qed.
Print Assumptions C14_reports_count_le_channels.
Example C14_gen_report_count : (MaxOutcomeChannelDefinitionsLength <= MaxReportCount)%Z /\ Z.of_nat chan_cap = MaxOutcomeChannelDefinitionsLength.
Proof. vm_compute. split; [discriminate|reflexivity]. Qed.

(* regardless of what at most f faulty observers vote, the only changes are those the correct nodes voted for *)
Theorem C14_only_agreed_changes : forall h f rm up tobs prev k, round_ok f rm up tobs ->
  let next := new_defs h f false prev (map fst tobs) in
  next !! k = prev !! k \/ (next !! k = None /\ k ∈ rm) \/ (exists d, next !! k = Some d /\ up !! k = Some d).
Proof. exact only_agreed_changes. Qed.
Print Assumptions C14_only_agreed_changes.

(* the votes of a correct node are the first 5 removals / first 5 additions-or-replacements by ascending id *)
Theorem C14_honest_votes_shape : forall codec_ok prev target, o_stage prev <> Retired -> verify_defs codec_ok target = true ->
  honest_votes codec_ok prev target = (rm_votes (o_defs prev) target, up_votes (o_defs prev) target).
Proof. exact honest_votes_shape. Qed.
Print Assumptions C14_honest_votes_shape.

(* what a correct node sends always passes ValidateObservation: at most 5 removals, at most 5 definitions, the voted
   definitions verify (VerifyChannelDefinitions is monotone in the set: C14_verify_defs_monotone), no attestation
   without a predecessor; the stream values are an input (at most MaxObservationStreamValuesLength of them, timestamped
   values wrap decimals) *)
Theorem C14_honest_observation_validates : forall codec_ok has_pred prev expected att retire ts vals,
  (has_pred = false -> att = []) ->
  (Z.of_nat (size vals) <= MaxObservationStreamValuesLength)%Z ->
  (forall s v, vals !! s = Some v -> match v with STsv _ (SDec _) => True | STsv _ _ => False | _ => True end) ->
  let votes := honest_votes codec_ok prev expected in
  validate_observation codec_ok has_pred
    {| ro_att := att; ro_retire := retire; ro_ts := ts; ro_removes := fst votes; ro_updates := snd votes; ro_values := vals |} = true.
Proof. exact honest_votes_validate. Qed.
Print Assumptions C14_honest_observation_validates.
(* the same for Plugin.Observation AS A WHOLE (previous outcome bytes decoded, retired short-cut, attestation only
   while staging with a predecessor, votes, values of exactly the streams the previous outcome needs): whatever it
   returns passes ValidateObservation — the size limit on the values follows from the verification of the previous
   outcome's definitions, it is not assumed; the data source is assumed to wrap only decimals in timestamped values *)
Theorem C14_observation_validates : forall codec_ok cf seq prev_bytes now cache_att should_retire expected source_vals source_fails ob,
  plugin_observation codec_ok cf seq prev_bytes now cache_att should_retire expected source_vals source_fails = Ok (Some ob) ->
  (forall s v, source_vals !! s = Some v -> match v with STsv _ (SDec _) => True | STsv _ _ => False | _ => True end) ->
  validate_observation codec_ok (c_has_pred cf) ob = true.
Proof. exact plugin_observation_validates. Qed.
Print Assumptions C14_observation_validates.

(* ... and on the wire: the BYTES a correct node sends (its observation marshalled in any map order) pass the whole of
   Plugin.ValidateObservation (sequence guard, decode, limits, definition verification) of every correct node *)
Theorem C14_correct_bytes_validate : forall codec_ok cf seq prev_bytes (i : OutcomeEndToEnd.obs_inp) rms ups vals ro,
  ReportsNoPanic.bok prev_bytes ->
  OutcomeEndToEnd.inputs_wf (OutcomeEndToEnd.oi_now i) (OutcomeEndToEnd.oi_expected i) (OutcomeEndToEnd.oi_vals i) ->
  (forall s v, OutcomeEndToEnd.oi_vals i !! s = Some v -> match v with STsv _ (SDec _) => True | STsv _ _ => False | _ => True end) ->
  OutcomeEndToEnd.observe codec_ok cf seq prev_bytes i = Ok (Some ro) ->
  Permutation rms (ro_removes ro) -> Permutation ups (map_to_list (ro_updates ro)) ->
  Permutation vals (map_to_list (ro_values ro)) -> OutcomeRoundTrip.small (encode_observation rms ups vals ro) ->
  plugin_validate codec_ok (c_has_pred cf) seq (encode_observation rms ups vals ro) = Ok tt.
Proof. exact OutcomeEndToEnd.correct_bytes_validate. Qed.
Print Assumptions C14_correct_bytes_validate.
(* one round, end to end: senders are correct nodes that all hold the same valid target (Plugin.Observation of their
   inputs, marshalled in any map order) or arbitrary bytes; at most f faulty, more than f correct observations accepted; the
   new channel set is the previous one with exactly the agreed batch applied (the first 5 additions / replacements and the
   first 5 removals by ascending id), whatever the faulty senders vote *)
Theorem C14_llo_agreed_round : forall h check codec_ok cf seq prev_bytes (ss : list OutcomeEndToEnd.lsender) prev next target,
  ReportsNoPanic.bok prev_bytes -> OutcomeEndToEnd.lsenders_ok codec_ok cf seq prev_bytes ss -> 1 < seq ->
  decode_outcome (c_pver cf) prev_bytes = Ok prev -> o_stage prev = Production -> verify_defs codec_ok target = true ->
  (forall i rms ups vals, In (OutcomeEndToEnd.LCorrect i rms ups vals) ss -> OutcomeEndToEnd.oi_expected i = target) ->
  (length (List.filter (fun p : option observation * bool => negb (snd p)) (OutcomeEndToEnd.tagged check codec_ok cf seq prev_bytes ss)) <= c_f cf)%nat ->
  (c_f cf < length (List.filter (fun p : observation * bool => snd p)
                     (StepTheorems.accept_tagged false (OutcomeEndToEnd.tagged check codec_ok cf seq prev_bytes ss))))%nat ->
  (size (dom (o_defs prev) ∪ dom target) <= chan_cap)%nat ->
  outcome_step h cf seq prev (map fst (OutcomeEndToEnd.tagged check codec_ok cf seq prev_bytes ss)) = Ok next -> o_stage next <> Retired ->
  forall k, o_defs next !! k =
    if bool_decide (k ∈ up_list (o_defs prev) target) then target !! k
    else if bool_decide (k ∈ rm_votes (o_defs prev) target) then None else o_defs prev !! k.
Proof. exact OutcomeEndToEnd.llo_agreed_round. Qed.
Print Assumptions C14_llo_agreed_round.
Theorem C14_llo_stays_at_target : forall h check codec_ok cf seq prev_bytes (ss : list OutcomeEndToEnd.lsender) prev next target,
  ReportsNoPanic.bok prev_bytes -> OutcomeEndToEnd.lsenders_ok codec_ok cf seq prev_bytes ss -> 1 < seq ->
  decode_outcome (c_pver cf) prev_bytes = Ok prev -> o_stage prev = Production -> verify_defs codec_ok target = true ->
  (forall i rms ups vals, In (OutcomeEndToEnd.LCorrect i rms ups vals) ss -> OutcomeEndToEnd.oi_expected i = target) ->
  (length (List.filter (fun p : option observation * bool => negb (snd p)) (OutcomeEndToEnd.tagged check codec_ok cf seq prev_bytes ss)) <= c_f cf)%nat ->
  (c_f cf < length (List.filter (fun p : observation * bool => snd p)
                     (StepTheorems.accept_tagged false (OutcomeEndToEnd.tagged check codec_ok cf seq prev_bytes ss))))%nat ->
  o_defs prev = target -> (size target <= chan_cap)%nat ->
  outcome_step h cf seq prev (map fst (OutcomeEndToEnd.tagged check codec_ok cf seq prev_bytes ss)) = Ok next -> o_stage next <> Retired ->
  o_defs next = target.
Proof. exact OutcomeEndToEnd.llo_stays_at_target. Qed.
Print Assumptions C14_llo_stays_at_target.
(* ... and over several rounds: from the first round on all correct nodes hold the same valid target, at most f faulty senders
   per round, the instance in production: after at least rounds_bound = ceil(max(#to-remove, #to-add-or-replace)/5) rounds the
   outcome's channel set IS the target (wround: the previous outcome bytes, the senders, the outcome committed; consecutive
   rounds are linked by next = prev) *)
Theorem C14_llo_convergence : forall h check codec_ok cf target (rs : list (OutcomeEndToEnd.wround)) r0,
  verify_defs codec_ok target = true -> Forall (OutcomeEndToEnd.wround_ok h check codec_ok cf target) (r0 :: rs) ->
  OutcomeEndToEnd.wlinked (r0 :: rs) ->
  (size (dom (o_defs (OutcomeEndToEnd.wr_prev r0)) ∪ dom target) <= chan_cap)%nat ->
  (rounds_bound (o_defs (OutcomeEndToEnd.wr_prev r0)) target <= length (r0 :: rs))%nat ->
  o_defs (OutcomeEndToEnd.wr_next (last rs r0)) = target.
Proof. exact OutcomeEndToEnd.llo_convergence. Qed.
Print Assumptions C14_llo_convergence.
Example C14_nv_convergence :
  verify_defs (fun _ => true) NvE2E.e14_target = true /\
  Forall (OutcomeEndToEnd.wround_ok NvHistory.nv_h (fun _ => None) (fun _ => true) NvHistory.nv_cf NvE2E.e14_target) [NvE2E.e14_r0] /\
  OutcomeEndToEnd.wlinked [NvE2E.e14_r0] /\
  (size (dom (o_defs (OutcomeEndToEnd.wr_prev NvE2E.e14_r0)) ∪ dom NvE2E.e14_target) <= chan_cap)%nat /\
  (rounds_bound (o_defs (OutcomeEndToEnd.wr_prev NvE2E.e14_r0)) NvE2E.e14_target <= length [NvE2E.e14_r0])%nat /\
  o_defs (OutcomeEndToEnd.wr_next NvE2E.e14_r0) = NvE2E.e14_target.
Proof. exact NvE2E.e14_history. Qed.

Example C14_nv_agreed_round :
  decode_outcome (c_pver NvHistory.nv_cf) NvE2E.e6_prev_bytes = Ok NvE2E.e14_prev /\ o_stage NvE2E.e14_prev = Production /\
  verify_defs (fun _ => true) NvE2E.e14_target = true /\
  (forall i rms ups vals, In (OutcomeEndToEnd.LCorrect i rms ups vals) NvE2E.e6_ss -> OutcomeEndToEnd.oi_expected i = NvE2E.e14_target) /\
  (length (List.filter (fun p : option observation * bool => negb (snd p)) NvE2E.e6_tagged) <= c_f NvHistory.nv_cf)%nat /\
  (c_f NvHistory.nv_cf < length (List.filter (fun p : observation * bool => snd p) (StepTheorems.accept_tagged false NvE2E.e6_tagged)))%nat /\
  (size (dom (o_defs NvE2E.e14_prev) ∪ dom NvE2E.e14_target) <= chan_cap)%nat /\
  match outcome_step NvHistory.nv_h NvHistory.nv_cf 2 NvE2E.e14_prev (map fst NvE2E.e6_tagged) with
  | Ok next => o_stage next <> Retired /\ o_defs next !! 7 = Some NvHistory.nv_def
  | _ => False end.
Proof. exact NvE2E.e14_round. Qed.

(* non-vacuity: the three correct senders of props/NvE2E.v (C06 round: votes to add channel 7) *)
Example C14_nv_bytes_validate :
  OutcomeEndToEnd.lsenders_ok (fun _ => true) NvHistory.nv_cf 2 NvE2E.e6_prev_bytes NvE2E.e6_ss /\
  plugin_validate (fun _ => true) false 2
    (match OutcomeEndToEnd.lsent (fun _ => true) NvHistory.nv_cf 2 NvE2E.e6_prev_bytes (List.hd (OutcomeEndToEnd.LFaulty []) NvE2E.e6_ss) with Some b => b | None => [] end) = Ok tt.
Proof. split; [exact NvE2E.e6_senders_ok|vm_compute; reflexivity]. Qed.
Theorem C14_verify_defs_monotone : forall codec_ok (m1 m2 : gmap Z chandef),
  m1 ⊆ m2 -> verify_defs codec_ok m2 = true -> verify_defs codec_ok m1 = true.
Proof. exact verify_defs_mono. Qed.
Print Assumptions C14_verify_defs_monotone.

(* one round with >= f+1 correct and <= f faulty observers: exactly the agreed changes happen, pointwise.
   H_cap: the union of the current and the target ids fits the cap (at the cap the harness decides; see DESIGN) *)
Theorem C14_agreed_round : forall h f cur target tobs,
  round_ok f (rm_votes cur target) (up_votes cur target) tobs -> (size (dom cur ∪ dom target) <= chan_cap)%nat ->
  forall k, new_defs h f false cur (map fst tobs) !! k =
    if bool_decide (k ∈ up_list cur target) then target !! k
    else if bool_decide (k ∈ rm_votes cur target) then None else cur !! k.
Proof. exact agreed_round. Qed.
Print Assumptions C14_agreed_round.

(* the outcome's channel set equals the target after any number of rounds >= the bound, whatever the faulty vote *)
Theorem C14_convergence : forall h f target rs cur,
  rounds_ok h f target rs cur -> (size (dom cur ∪ dom target) <= chan_cap)%nat ->
  (rounds_bound cur target <= length rs)%nat ->
  run_rounds h f rs cur = target.
Proof.
  intros h f target rs cur Hok Hcap Hn.
  destruct (rounds_bound_enough cur target (length rs) (proj1 C14_gen_limits) (proj1 (proj2 C14_gen_limits)) Hn) as [Hr Hu].
  exact (convergence h f target rs cur Hok Hcap Hr Hu).
Qed.
Print Assumptions C14_convergence.

(* and then stays equal *)
Theorem C14_stays_at_target : forall h f target tobs,
  round_ok f (rm_votes target target) (up_votes target target) tobs -> (size target <= chan_cap)%nat ->
  new_defs h f false target (map fst tobs) = target.
Proof. exact stays_at_target. Qed.
Print Assumptions C14_stays_at_target.

(* non-vacuity: f = 1, two correct and one faulty observer, 7 channels to add and 1 to remove: 2 rounds *)
Definition nv_d (s : Z) : chandef := {| cd_fmt := 2; cd_streams := [(s, 1)]; cd_opts := [] |}.
Definition nv_cur : gmap Z chandef := list_to_map [(100, nv_d 1)].
Definition nv_target : gmap Z chandef := list_to_map [(1, nv_d 1); (2, nv_d 2); (3, nv_d 3); (4, nv_d 4); (5, nv_d 5); (6, nv_d 6); (7, nv_d 7)].
Definition nv_ob (rm : list Z) (up : gmap Z chandef) : observation :=
  {| ob_att := NoAttest; ob_retire := false; ob_ts := 0; ob_removes := rm; ob_updates := up; ob_values := ∅ |}.
Definition nv_round (cur : gmap Z chandef) : list (observation * bool) :=
  [(nv_ob (rm_votes cur nv_target) (up_votes cur nv_target), true);
   (nv_ob [1; 2; 100] (list_to_map [(1, nv_d 9); (50, nv_d 9)]), false);
   (nv_ob (rm_votes cur nv_target) (up_votes cur nv_target), true)].
Definition nv_h (_ : Z) (_ : chandef) : list Z := [].
Definition nv_mid := new_defs nv_h 1 false nv_cur (map fst (nv_round nv_cur)).
Example C14_nv :
  rounds_bound nv_cur nv_target = 2%nat /\
  bool_decide (run_rounds nv_h 1 [nv_round nv_cur; nv_round nv_mid] nv_cur = nv_target) = true /\
  bool_decide (nv_mid = nv_target) = false.
Proof. repeat split; vm_compute; reflexivity. Qed.

(* "at no point": the cap as an invariant of whole histories of Plugin.outcome (any votes in every round), and of histories ON THE
   WIRE (BytesHistory: byte-level events of Plugin.Outcome linked by their bytes).  A history that starts from the first round's
   outcome starts with no channel at all (C14_initial_within_cap). *)
From DS Require BytesHistory HistoryProofs NvWire.
Theorem C14_cap_history : forall h cf (es : list HistoryProofs.event) (e0 : HistoryProofs.event),
  Forall (HistoryProofs.valid_event h cf) (e0 :: es) -> HistoryProofs.linked (e0 :: es) ->
  (size (o_defs (HistoryProofs.ev_prev e0)) <= chan_cap)%nat ->
  forall e, e ∈ (e0 :: es) -> (size (o_defs (HistoryProofs.ev_next e)) <= chan_cap)%nat.
Proof. exact BytesHistory.cap_history. Qed.
Print Assumptions C14_cap_history.
Theorem C14_cap_on_the_wire : forall h check cf (bs : list BytesHistory.bevent) (b0 : BytesHistory.bevent),
  BytesHistory.check_typed check -> Forall (BytesHistory.bvalid h check cf) (b0 :: bs) -> BytesHistory.blinked (b0 :: bs) ->
  (size (o_defs (BytesHistory.dec_or_initial cf (BytesHistory.bv_prev b0))) <= chan_cap)%nat ->
  forall b, In b (b0 :: bs) -> (size (o_defs (BytesHistory.dec_or_initial cf (BytesHistory.bv_next b))) <= chan_cap)%nat.
Proof. intros h check. exact (BytesHistory.cap_on_the_wire h check). Qed.
Print Assumptions C14_cap_on_the_wire.
Theorem C14_initial_within_cap : forall cf, (size (o_defs (initial_outcome cf)) <= chan_cap)%nat.
Proof. exact BytesHistory.initial_within_cap. Qed.
(* non-vacuity on the wire: rounds 3-5 of props/NvWire.v are valid linked byte-level events starting from one channel *)
Example C14_nv_cap_on_the_wire :
  BytesHistory.check_typed NvWire.w_check /\
  Forall (BytesHistory.bvalid NvHistory.nv_h NvWire.w_check NvHistory.nv_cf) (NvWire.w_e3 :: [NvWire.w_e4; NvWire.w_e5]) /\
  BytesHistory.blinked (NvWire.w_e3 :: [NvWire.w_e4; NvWire.w_e5]) /\
  size (o_defs (BytesHistory.dec_or_initial NvHistory.nv_cf (BytesHistory.bv_prev NvWire.w_e3))) = 1%nat.
Proof. destruct NvWire.w_history as (H1 & H2 & H3 & _). split; [exact H1|]. split; [exact H2|]. split; [exact H3|]. vm_compute. reflexivity. Qed.
