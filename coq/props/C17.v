(* C17 — JSON report codec and text forms of stream values round-trip.
   Only statements; proofs are `exact <lemma>` into proofs/TextProofs.v. *)
From DS Require Import Base RepoConstants Decimal StreamValue TextForms JsonReportBytes TextProofs JsonBytesProofs.
From DS Require JsonPackBytes Base64Proofs JsonPackProofs.

(* the two regular expressions in /repo are the modelled ones (regenerated from the source on every run) *)
Example C17_gen_regexes : quote_regex_found = true /\ tsv_regex_found = true /\
  quote_regex_src = quote_regex_modelled /\ tsv_regex_src = tsv_regex_modelled.
Proof. repeat split; reflexivity. Qed.

(* decimal text: String() parses back (NewFromString) to a numerically equal decimal — any sign, magnitude, scale *)
Theorem C17_decimal_text_roundtrip : forall d, exists d', dec_parse (dec_string d) = Some (Ok d') /\ deqvb d d' = true.
Proof. exact dec_text_roundtrip. Qed.
Print Assumptions C17_decimal_text_roundtrip.

(* quote text, negative components included *)
Theorem C17_quote_text_roundtrip : forall b m a, exists b' m' a',
  quote_parse (quote_text b m a) = Ok (SQuote b' m' a') /\ deqvb b b' = true /\ deqvb m m' = true /\ deqvb a a' = true.
Proof. exact quote_text_roundtrip. Qed.
Print Assumptions C17_quote_text_roundtrip.

(* every stream value, nested timestamped values of any depth with full-range uint64 timestamps, through the typed envelope *)
Theorem C17_typed_text_roundtrip : forall v, sval_ts_ok v = true ->
  forall fuel, (sval_depth v < fuel)%nat ->
  exists v', typed_parse fuel (sv_type v) (sval_text v) = Some (Ok v') /\ sval_equiv v v' = true.
Proof. exact typed_roundtrip. Qed.
Print Assumptions C17_typed_text_roundtrip.

(* the JSON report codec (struct level): digest, sequence number, channel, validity start, timestamp, specimen flag, values.
   Hypothesis f_seq <> 0: Decode rejects sequence number 0 ("missing SeqNr"); the plugin never reports at seqNr <= 1. *)
Theorem C17_json_report_roundtrip : forall r,
  length (f_digest r) = 32%nat -> Forall (fun b => 0 <= b < 256) (f_digest r) -> f_seq r <> 0 -> all_present (f_values r) ->
  exists j r', json_encode r = Ok j /\ json_decode j = Some (Ok r') /\ freport_equiv r r' = true.
Proof. exact json_report_roundtrip. Qed.
Print Assumptions C17_json_report_roundtrip.

(* ... and at BYTE level: json_report_bytes is what json.Marshal writes for the encoder's struct (compared byte for byte
   with Go on every run); reading those bytes back gives the same JSON document, which decodes to the same report *)
Theorem C17_json_report_roundtrip_bytes : forall r,
  length (f_digest r) = 32%nat -> Forall (fun b => 0 <= b < 256) (f_digest r) -> f_seq r <> 0 -> all_present (f_values r) ->
  0 <= f_seq r -> 0 <= f_chan r -> 0 <= f_va r -> 0 <= f_ts r ->
  exists j r', json_encode r = Ok j /\ json_report_parse (json_report_bytes j) = Some j /\
               json_decode j = Some (Ok r') /\ freport_equiv r r' = true.
Proof. exact json_report_bytes_roundtrip. Qed.
Print Assumptions C17_json_report_roundtrip_bytes.

(* packed (digest, sequence number, report, signatures) tuple *)
Theorem C17_pack_unpack_roundtrip : forall t, length (pt_digest t) = 32%nat -> Forall (fun b => 0 <= b < 256) (pt_digest t) ->
  unpack_model (pack_model t) = Ok t.
Proof. exact pack_unpack_roundtrip. Qed.
Print Assumptions C17_pack_unpack_roundtrip.
(* the signatures travel as base64 text inside the packed JSON (JsonPackBytes.json_pack_bytes is compared byte for byte with
   what Pack returns): decoding the text gives back every signature, whatever its bytes and length *)
Theorem C17_signature_base64_roundtrip : forall bs, Forall (fun b => 0 <= b < 256) bs ->
  JsonPackBytes.b64_decode (JsonPackBytes.b64_encode bs) = Some bs.
Proof. exact Base64Proofs.b64_roundtrip. Qed.
Print Assumptions C17_signature_base64_roundtrip.
(* ... and the whole tuple at byte level: reading back the text Pack wrote (JsonPackBytes.json_pack_bytes, compared byte for
   byte with the real Pack; the reader json_unpack_bytes is run on the real bytes too) recovers digest, sequence number,
   report and every signature.  The report must have the shape JSONReportCodec.Encode writes. *)
Theorem C17_pack_unpack_bytes : forall t j sn, JsonPackProofs.ptuple_ok t j ->
  JsonPackBytes.json_unpack_bytes (JsonPackBytes.json_pack_bytes t sn) = Some (t, match pt_sigs t with [] => sn | _ => false end).
Proof. exact JsonPackProofs.json_unpack_pack. Qed.
Print Assumptions C17_pack_unpack_bytes.
Example C17_nv_base64 : JsonPackBytes.b64_encode [77; 97; 110; 255; 0] = str_bytes "TWFu/wA=".
Proof. vm_compute. reflexivity. Qed.

(* D3 (repaired): with the expression of the pinned tree (no minus sign) a negative quote does not parse back *)
Theorem C17_quote_needs_minus_refuted : find_quote false (quote_text (mkdec (-1) 0) (mkdec 2 0) (mkdec 3 0)) = None.
Proof. exact quote_needs_minus_refuted. Qed.
Print Assumptions C17_quote_needs_minus_refuted.

(* non-vacuity *)
Example C17_nv :
  let v := STsv 18446744073709551615 (STsv 0 (SQuote (mkdec (-15) (-1)) (mkdec 12300 (-4)) (mkdec 5 40))) in
  sval_ts_ok v = true /\ (sval_depth v < 3)%nat /\
  sval_text (SDec (mkdec (-123456789012345678901234567890) (-40))) = str_bytes "-0.000000000012345678901234567890123456789" /\
  typed_parse 3 2 (sval_text v) = Some (Ok (STsv 18446744073709551615 (STsv 0 (SQuote (mkdec (-15) (-1)) (mkdec 123 (-2)) (mkdec (5 * 10 ^ 40) 0))))).
Proof. cbv zeta. repeat split; vm_compute; reflexivity. Qed.
(* UnpackDecode (exercised on the real bytes as well): the tuple comes back with the report decoded *)
Theorem C17_unpack_decode_bytes : forall t j sn fr, JsonPackProofs.ptuple_ok t j -> json_decode j = Some (Ok fr) ->
  JsonPackBytes.json_unpack_decode_bytes (JsonPackBytes.json_pack_bytes t sn) = Some (Ok (pt_digest t, pt_seq t, fr, pt_sigs t)).
Proof. exact JsonPackProofs.json_unpack_decode_pack. Qed.
Print Assumptions C17_unpack_decode_bytes.
Definition C17_nv_j : jreport :=
  {| j_digest := hex_encode (repeat 7 32); j_seq := 3; j_chan := 9; j_va := 1000; j_ts := 2000;
     j_values := [(0, str_bytes "1.5"); (1, str_bytes "Q{Bid: 1, Benchmark: 2, Ask: 3}")]; j_specimen := false |}.
Definition C17_nv_t : ptuple :=
  {| pt_digest := repeat 7 32; pt_seq := 3; pt_report := json_report_bytes C17_nv_j; pt_sigs := [([1; 2; 3; 255], 2); ([], 0)] |}.
Example C17_nv_pack : JsonPackProofs.ptuple_ok C17_nv_t C17_nv_j /\
  JsonPackBytes.json_unpack_bytes (JsonPackBytes.json_pack_bytes C17_nv_t false) = Some (C17_nv_t, false).
Proof.
  split; [|vm_compute; reflexivity].
  unfold JsonPackProofs.ptuple_ok. split; [reflexivity|]. split; [apply Forall_forall; intros b Hb; apply repeat_spec in Hb; lia|].
  split; [cbn; lia|]. split; [reflexivity|]. split.
  - unfold jreport_ok. split; [vm_compute; reflexivity|]. cbn [j_seq j_chan j_va j_ts C17_nv_j]. repeat split; try lia.
    repeat (apply Forall_cons; [split; [cbn; lia|vm_compute; reflexivity]|]). apply Forall_nil.
  - repeat (apply Forall_cons; [split; [cbn [fst]; repeat (apply Forall_cons; [lia|]); apply Forall_nil|cbn; lia]|]). apply Forall_nil.
Qed.
