(* C11 — no plugin callback or decoder panics on adversarial input.
   Only statements; proofs are `exact <lemma>` into proofs/NoPanicProofs.v (and OutcomeCodecProofs / EvmCodecProofs).
   Every model function returns Ok / Err / Panic; these theorems say the Panic result is unreachable. *)
From stdpp Require Import gmap.
From DS Require Import Base RepoConstants Decimal StreamValue Aggregators Outcome OutcomeCodec ObservationCodec MercuryAgg MercuryReport
  TextForms EvmInt EvmCodecs EvmSpec PluginReports OutcomeCodecProofs EvmCodecProofs NoPanicProofs ReportsNoPanic.
From DS Require Observe ValidateProofs MercuryWire MercuryObserve MercObserveProofs BytesHistory.

Example C11_gen_widths_complete : evm_type_widths = solidity_widths.
Proof. reflexivity. Qed.

(* ---- LLO decoders: arbitrary bytes ---- *)
Theorem C11_decode_observation_total : forall bs, is_panic (decode_observation bs) = false.
Proof. exact decode_observation_no_panic. Qed.
Print Assumptions C11_decode_observation_total.
Theorem C11_decode_outcome_total : forall pver bs, is_panic (decode_outcome pver bs) = false.
Proof. exact decode_outcome_no_panic. Qed.
Print Assumptions C11_decode_outcome_total.
Theorem C11_stream_value_total : forall t data, is_panic (sval_unmarshal t data) = false.
Proof. exact sval_unmarshal_no_panic. Qed.
Print Assumptions C11_stream_value_total.
Theorem C11_typed_text_total : forall fuel t v, no_some_panic (typed_parse fuel t v).
Proof. exact typed_parse_no_panic. Qed.
Print Assumptions C11_typed_text_total.
Theorem C11_json_report_decode_total : forall j, no_some_panic (json_decode j).
Proof. exact json_decode_no_panic. Qed.
Print Assumptions C11_json_report_decode_total.

(* ---- LLO outcome: any previous outcome, any observations that passed validation (no attestation without predecessor) ---- *)
Theorem C11_outcome_no_panic : forall h cf seq prev aos, Forall (att_validated (c_has_pred cf)) aos ->
  is_panic (outcome_step h cf seq prev aos) = false.
Proof. exact outcome_step_no_panic. Qed.
Print Assumptions C11_outcome_no_panic.
(* LLO: observations that do not decode are ignored when mixed with good ones (as long as 2f+1 decodable ones remain,
   the outcome is the outcome of the decodable ones alone) *)
Theorem C11_llo_undecodable_observations_ignored : forall h cf seq prev aos,
  (2 * c_f cf + 1 <= length (List.filter BytesHistory.is_decoded aos))%nat ->
  outcome_step h cf seq prev aos = outcome_step h cf seq prev (List.filter BytesHistory.is_decoded aos).
Proof. exact BytesHistory.undecodable_observations_ignored. Qed.
Print Assumptions C11_llo_undecodable_observations_ignored.
(* the assumption is needed: exactly the dereference that validation guards *)
Theorem C11_outcome_needs_validation_refuted : forall h, exists cf aos, is_panic (outcome_step h cf 2 (initial_outcome cf) aos) = true.
Proof. exact outcome_panics_without_validation_refuted. Qed.
Print Assumptions C11_outcome_needs_validation_refuted.
(* the aggregators on any values *)
Theorem C11_aggregators_no_panic : forall vs f,
  is_panic (median_agg vs f) = false /\ is_panic (quote_agg vs f) = false /\ is_panic (mode_agg vs f) = false.
Proof. intros vs f. exact (conj (median_agg_no_panic vs f) (conj (quote_agg_no_panic vs f) (mode_agg_no_panic vs f))). Qed.
Print Assumptions C11_aggregators_no_panic.

(* ---- LLO ValidateObservation as a whole: any bytes, any sequence number ---- *)
Theorem C11_validate_no_panic : forall codec_ok has_pred seq bs, is_panic (plugin_validate codec_ok has_pred seq bs) = false.
Proof.
  intros. unfold plugin_validate. destruct (seq <? 1); [reflexivity|]. destruct ((seq =? 1) && _); [reflexivity|].
  pose proof (decode_observation_no_panic bs) as H. destruct (decode_observation bs); try discriminate; [|reflexivity].
  destruct (validate_observation codec_ok has_pred a); reflexivity.
Qed.

(* ---- LLO Observation as a whole: any previous-outcome bytes, any cache / data-source behaviour short of a panic of theirs ---- *)
Theorem C11_observation_no_panic : forall codec_ok cf seq prev_bytes now cache_att should_retire expected source_vals source_fails,
  is_panic cache_att = false -> is_panic should_retire = false ->
  is_panic (plugin_observation codec_ok cf seq prev_bytes now cache_att should_retire expected source_vals source_fails) = false.
Proof. exact ValidateProofs.plugin_observation_no_panic. Qed.
Print Assumptions C11_observation_no_panic.

(* ---- LLO Reports as a whole: ANY outcome bytes (well-formed bytes), any sequence number, any configuration ----
   `codecs` is the table of registered report codecs, `retire_enc` the (external, JSON) retirement-report codec.
   Reports decodes the bytes, builds one report per reportable channel, hands each to its codec; a missing codec or
   an encoding error drops that report.  It cannot panic unless a codec does — and the outcome decoder only ever
   hands codecs values whose decimals have int32 exponents (C11_decoded_reports_wf), which is what the in-repo
   codecs' own no-panic theorems assume. *)
Theorem C11_decoded_reports_wf : forall pver bs o cf seq r,
  decode_outcome pver bs = Ok o -> bok bs -> In r (snd (reports_of cf seq o)) -> values_wf r = true.
Proof. exact decoded_reports_wf. Qed.
Print Assumptions C11_decoded_reports_wf.
Theorem C11_reports_no_panic : forall codecs retire_enc (good : report -> Prop),
  (forall fmt enc r, codecs fmt = Some enc -> fmt = cd_fmt (r_def r) -> values_wf r = true -> good r -> is_panic (enc (r_def r) r) = false) ->
  (forall va, is_panic (retire_enc va) = false) ->
  forall cf seq bs, bok bs ->
  (forall o r, decode_outcome (c_pver cf) bs = Ok o -> In r (snd (reports_of cf seq o)) -> good r) ->
  is_panic (plugin_reports codecs retire_enc cf seq bs) = false.
Proof. exact plugin_reports_no_panic. Qed.
Print Assumptions C11_reports_no_panic.
(* instance: all four in-repo report codecs (EVM premium legacy, ABI-unpacked, streamlined; JSON), outside known
   finding F4 *)
Theorem C11_reports_no_panic_repo_codecs :
  forall fmt_legacy fmt_unpacked fmt_streamlined fmt_json digest legacy_opts_of unpacked_opts_of streamlined_opts_of retire_enc seq_for_json,
  (forall va, is_panic (retire_enc va) = false) ->
  forall cf seq bs, bok bs ->
  (forall o r, decode_outcome (c_pver cf) bs = Ok o -> In r (snd (reports_of cf seq o)) ->
     outside_f4 fmt_legacy fmt_unpacked legacy_opts_of unpacked_opts_of r) ->
  is_panic (plugin_reports (repo_codecs fmt_legacy fmt_unpacked fmt_streamlined fmt_json digest legacy_opts_of unpacked_opts_of streamlined_opts_of seq_for_json)
                           retire_enc cf seq bs) = false.
Proof. intros. apply repo_reports_no_panic; try assumption. exact C11_gen_widths_complete. Qed.
(* the ABI-encode-unpacked codec, like premium legacy, can only panic in the fee division (F4 region) *)
Theorem C11_unpacked_panic_only_F4 : forall o r s, values_wf r = true ->
  unpacked_encode o r = Panic s -> exists o', o = Some o' /\ f4_region (uo_fee o') r = true.
Proof. exact (unpacked_panic_only_F4 C11_gen_widths_complete). Qed.
Print Assumptions C11_reports_no_panic_repo_codecs.

(* ---- Mercury v1-v4 Report: any observations, any previous report; only an external codec could panic ---- *)
Theorem C11_mercury234_no_panic : forall ver c prev replen obs, (forall rf, is_panic (replen rf) = false) ->
  is_panic (report234 ver c prev replen obs) = false.
Proof. exact report234_no_panic. Qed.
Print Assumptions C11_mercury234_no_panic.
Theorem C11_mercury1_no_panic : forall c prev replen obs, (forall rf, is_panic (replen rf) = false) ->
  is_panic (report1 c prev replen obs) = false.
Proof. exact report1_no_panic. Qed.
Print Assumptions C11_mercury1_no_panic.
Theorem C11_mercury_aggregates_no_panic :
  (forall xs f, is_panic (consensus_price xs f) = false) /\ (forall xs f, is_panic (consensus_fee xs f) = false) /\
  (forall xs f, is_panic (max_finalized_ts xs f) = false) /\ (forall xs f, is_panic (market_status xs f) = false) /\
  (forall xs f, is_panic (max_finalized_block xs f) = false) /\ (forall obs f, is_panic (latest_block obs f) = false).
Proof. exact mercury_aggregates_no_panic. Qed.
Print Assumptions C11_mercury_aggregates_no_panic.
(* ... and from the observation BYTES (MercuryWire: proto.Unmarshal of the four observation messages, compared with
   the real library on every observation incl. damaged encodings): undecodable observations are dropped, nothing panics *)
Theorem C11_mercury_bytes_no_panic : forall ver c prev replen (raws : list bytes), (forall rf, is_panic (replen rf) = false) ->
  is_panic (report234 ver c prev replen (MercuryReport.omap (MercuryWire.merc_decode234 ver) raws)) = false /\
  forall replen1, (forall rf, is_panic (replen1 rf) = false) ->
  is_panic (report1 c prev replen1 (MercuryReport.omap MercuryWire.merc_decode1 raws)) = false.
Proof.
  intros ver c prev replen raws H. split; [apply report234_no_panic; exact H|]. intros replen1 H1. apply report1_no_panic. exact H1.
Qed.
(* observations that fail parsing / validation are ignored when mixed with good ones *)
Theorem C11_invalid_observations_ignored : forall ver c prev replen obs,
  report234 ver c prev replen obs =
  report234 ver c prev replen (filter (fun o => match parse234 ver o with Some _ => true | None => false end) obs).
Proof. exact report234_ignores_invalid. Qed.
Print Assumptions C11_invalid_observations_ignored.

(* ---- EVM report codecs with nil / wrong-kind values and unverified definitions ---- *)
Theorem C11_streamlined_no_panic : forall o fmt r, values_wf r = true -> is_panic (streamlined_encode o fmt r) = false.
Proof. exact (streamlined_no_panic C11_gen_widths_complete). Qed.
Print Assumptions C11_streamlined_no_panic.
Theorem C11_legacy_panic_only_F4 : forall o r s, values_wf r = true ->
  legacy_encode o r = Panic s -> exists o', o = Some o' /\ f4_region (lo_fee o') r = true.
Proof. exact legacy_panic_only_F4. Qed.
Print Assumptions C11_legacy_panic_only_F4.
(* F4 (known finding): the full statement is false for the fee division *)
Theorem C11_reports_panics_refuted_F4 :
  exists o r s, legacy_verify (Some o) 3 = true /\ values_wf r = true /\ legacy_encode (Some o) r = Panic s.
Proof. exact fee_panics_refuted. Qed.
Print Assumptions C11_reports_panics_refuted_F4.

(* non-vacuity: a validated observation list on which the outcome is computed *)
Example C11_nv : let cf := {| c_f := 0; c_pver := 1; c_interval := 1; c_has_pred := false |} in
  let ob := {| ob_att := NoAttest; ob_retire := false; ob_ts := 5; ob_removes := []; ob_updates := ∅; ob_values := ∅ |} in
  Forall (att_validated (c_has_pred cf)) [Some ob] /\ is_ok (outcome_step (fun _ _ => []) cf 2 (initial_outcome cf) [Some ob]) = true.
Proof. cbv zeta. split; [repeat constructor; right; reflexivity|vm_compute; reflexivity]. Qed.

(* ---- MercuryPlugin.Observation (v1-v4): never panics for a base-fee exponent the decimal library can divide with;
   fails only when the data source as a whole fails (or, v2-v4, the clock is past 2^32 - 1 s); the single panic site of
   the model (shopspring QuoRem's exponent overflow) is reachable only through the owner-set off-chain configuration *)
Theorem C11_mercury_observation_total : forall ver base now fail ds,
  MercuryObserve.int32_in (Decimal.dexp base + 16) = true ->
  match MercuryObserve.merc_observe234 ver base now fail ds with
  | Ok _ => fail = false /\ now <= MercuryReport.max_uint32
  | Err _ => fail = true \/ MercuryReport.max_uint32 < now
  | Panic _ => False
  end.
Proof. exact MercObserveProofs.merc_observation_total. Qed.
Theorem C11_mercury_observation_panic_only_exponent : forall ver base now fail ds s,
  MercuryObserve.merc_observe234 ver base now fail ds = Panic s -> MercuryObserve.int32_in (Decimal.dexp base + 16) = false.
Proof. exact MercObserveProofs.merc_observation_panic_only_exponent. Qed.
Theorem C11_mercury_observation1_total : forall now prev_nil fail ds,
  match MercuryObserve.merc_observe1 now prev_nil fail ds with Ok _ => fail = false | Err _ => fail = true | Panic _ => False end.
Proof. exact MercObserveProofs.merc_observation1_total. Qed.
Print Assumptions C11_mercury_observation_total.
Print Assumptions C11_mercury_observation1_total.
