(* C13 — Solidity integer encoders are exact and range-checked.
   Only statements here; every proof is `exact <lemma>` into proofs/EvmIntProofs.v. *)
From DS Require Import Base RepoConstants EvmInt EvmIntProofs.

(* source-derived obligations: the regex in /repo is the modelled one and lists exactly uint8..uint256 *)
Example C13_gen_regex_found : evm_type_regex_found = true /\ evm_type_regex_shape_ok = true.
Proof. split; reflexivity. Qed.
Example C13_gen_widths_complete : evm_type_widths = solidity_widths.
Proof. reflexivity. Qed.

(* accepted type strings are exactly "uint"|"int" followed by 8,16,...,256 *)
Theorem C13_parse_type_spec : forall t sg w,
  parse_type t = Some (sg, w) <-> t = type_name sg w /\ In w solidity_widths.
Proof. intros. exact (parse_type_spec t sg w C13_gen_widths_complete). Qed.
Print Assumptions C13_parse_type_spec.

(* packed encoding succeeds exactly when the value is representable; otherwise an out-of-range error *)
Theorem C13_packed_ok_iff_in_range : forall sg w v, In w solidity_widths ->
  ((exists bs, encode_packed v (type_name sg w) = Ok bs) <-> in_range sg w v) /\
  (~ in_range sg w v -> encode_packed v (type_name sg w) = Err EOutOfRange).
Proof. intros sg w v. exact (packed_ok_iff_in_range sg w v C13_gen_widths_complete). Qed.
Print Assumptions C13_packed_ok_iff_in_range.

(* N/8 bytes, big-endian two's complement *)
Theorem C13_packed_is_twos_complement : forall sg w v bs, In w solidity_widths ->
  encode_packed v (type_name sg w) = Ok bs ->
  Z.of_nat (length bs) = w / 8 /\ Forall (fun b => 0 <= b < 256) bs /\
  be_value bs = v mod 2 ^ w /\ (if sg then twos_read bs = v else be_value bs = v).
Proof. intros sg w v bs. exact (packed_is_twos_complement sg w v bs C13_gen_widths_complete). Qed.
Print Assumptions C13_packed_is_twos_complement.

(* padded encoding = 32-byte sign extension of the same number, defined exactly when packed is *)
Theorem C13_padded_is_sign_extension : forall sg w v, In w solidity_widths ->
  (forall bs, encode_packed v (type_name sg w) = Ok bs -> exists ps, encode_padded v (type_name sg w) = Ok ps) /\
  (forall e, encode_packed v (type_name sg w) = Err e -> encode_padded v (type_name sg w) = Err e) /\
  (forall ps, encode_padded v (type_name sg w) = Ok ps ->
     length ps = 32%nat /\ Forall (fun b => 0 <= b < 256) ps /\
     be_value ps = v mod 2 ^ 256 /\ (sg = true \/ v < 2 ^ 255 -> twos_read ps = v)).
Proof. intros sg w v. exact (padded_is_sign_extension sg w v C13_gen_widths_complete). Qed.
Print Assumptions C13_padded_is_sign_extension.

(* any other type string is rejected *)
Theorem C13_other_types_rejected : forall t v,
  (forall sg w, In w solidity_widths -> t <> type_name sg w) ->
  encode_packed v t = Err EInvalidType /\ encode_padded v t = Err EInvalidType.
Proof. intros t v. exact (other_types_rejected t v C13_gen_widths_complete). Qed.
Print Assumptions C13_other_types_rejected.

(* non-vacuity: concrete instances meeting the hypotheses *)
Example C13_nv_int24 : In 24 solidity_widths /\ in_range true 24 (-8388608) /\
  encode_packed (-8388608) (str_bytes "int24") = Ok [128; 0; 0] /\
  encode_padded (-2) (str_bytes "int16") = Ok (repeat 255 31 ++ [254]) /\
  encode_packed 256 (str_bytes "uint8") = Err EOutOfRange /\
  encode_packed 1 (str_bytes "uint08") = Err EInvalidType.
Proof. vm_compute. repeat split; try (right; right; left; reflexivity); discriminate. Qed.
