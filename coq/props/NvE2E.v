(* NvE2E.v — a concrete round for the non-vacuity of the end-to-end theorems of C02: predecessor outcome NvHistory.p2
   (channel 7 over (stream 3, median)) as bytes; three correct nodes whose data sources return 10, 12, 11 for stream 3,
   marshalled; a fourth sender sends a well-formed observation claiming 10^30. *)
From stdpp Require Import gmap.
From DS Require Import Base Decimal StreamValue Sort Aggregators RepoConstants Outcome OutcomeCodec Observe ObservationCodec PluginOutcome PluginOutcomeBytes.
From DS Require Import RankMedian DecimalProofs AggregatorProofs StreamValueProofs StepTheorems OutcomeAggRange OutcomeRoundTrip ObservationRoundTrip ReportsNoPanic OutcomeEndToEnd NvHistory.
From Coq Require Import Lia.
Open Scope Z_scope.

Definition e_prev_bytes : list Z := match encode_outcome 1 p2 with Ok b => b | _ => [] end.
Definition e_inp (v : Z) : obs_inp :=
  {| oi_now := 12 * s; oi_att := Ok []; oi_retire := Ok false; oi_expected := {[ 7 := nv_def ]};
     oi_vals := {[ 3 := SDec (mkdec v 0) ]}; oi_fails := false |}.
Definition e_correct (v : Z) : lsender := LCorrect (e_inp v) [] [] [(3, SDec (mkdec v 0))].
Definition e_faulty : lsender :=
  LFaulty (encode_observation [] [] [(3, SDec (mkdec 1 30))]
            {| ro_att := []; ro_retire := false; ro_ts := 12 * s; ro_removes := []; ro_updates := ∅; ro_values := {[ 3 := SDec (mkdec 1 30) ]} |}).
Definition e_ss : list lsender := [e_correct 10; e_faulty; e_correct 12; e_correct 11].
Definition e_tagged := tagged (fun _ => None) (fun _ => true) nv_cf 3 e_prev_bytes e_ss.

Lemma e_senders_ok : lsenders_ok (fun _ => true) nv_cf 3 e_prev_bytes e_ss.
Proof.
  intros i rms ups vals Hin.
  assert (Hcases : exists v, (v = 10 \/ v = 12 \/ v = 11) /\ i = e_inp v /\ rms = [] /\ ups = [] /\ vals = [(3, SDec (mkdec v 0))]).
  { destruct Hin as [H|[H|[H|[H|[]]]]]; try discriminate; inversion H; subst; eauto 10. }
  destruct Hcases as (v & Hv & -> & -> & -> & ->). split.
  - unfold inputs_wf, e_inp. cbn [oi_now oi_expected oi_vals]. split; [unfold u64_ok; vm_compute; split; [discriminate|reflexivity]|]. split.
    + apply map_Forall_singleton. split; [unfold u32_ok; lia|]. unfold def_wf, nv_def. cbn [cd_fmt cd_streams]. split; [unfold u32_ok; lia|].
      constructor; [|constructor]. unfold stream_wf. cbn [fst snd]. unfold u32_ok. lia.
    + apply map_Forall_singleton. split; [unfold u32_ok; lia|]. split; [|cbn; lia]. cbn [sval_ok]. unfold exp_ok. cbn. lia.
  - intros ro Ho.
    assert (Hro : ro = {| ro_att := []; ro_retire := false; ro_ts := 12 * s; ro_removes := []; ro_updates := ∅;
                          ro_values := {[ 3 := SDec (mkdec v 0) ]} |}).
    { destruct Hv as [-> | [-> | ->]]; vm_compute in Ho; inversion Ho; vm_compute; reflexivity. }
    subst ro. cbn [ro_removes ro_updates ro_values]. rewrite map_to_list_empty, map_to_list_singleton.
    split; [constructor|]. split; [constructor|]. split; [apply Permutation_refl|].
    unfold small. destruct Hv as [-> | [-> | ->]]; vm_compute; reflexivity.
Qed.

Example e_round :
  bok e_prev_bytes /\ lsenders_ok (fun _ => true) nv_cf 3 e_prev_bytes e_ss /\
  match outcome_step nv_h nv_cf 3 p2 (map fst e_tagged) with
  | Ok next => o_aggs next !! (3, 1) = Some (SDec (mkdec 12 0))
  | _ => False end /\
  honest_type 0 (accepted_vals e_tagged 3) /\ (fpres (accepted_vals e_tagged 3) < hpres (accepted_vals e_tagged 3))%nat /\
  (faulty_count (accepted_ts e_tagged) < honest_count (accepted_ts e_tagged))%nat.
Proof.
  split; [apply Forall_forall; intros b Hb; vm_compute in Hb; repeat (destruct Hb as [<-|Hb]; [lia|]); destruct Hb|].
  split; [exact e_senders_ok|]. split; [vm_compute; reflexivity|]. split; [|split; vm_compute; lia].
  intros x H. vm_compute in H. destruct H as [H|[H|[H|[H|[]]]]]; inversion H; reflexivity.
Qed.

(* ---- C06: previous outcome p1 (no channels) as bytes; three correct nodes whose definitions caches hold {7 := nv_def}
   vote to add it; a fourth sender sends garbage; the new outcome defines channel 7 ---- *)
Definition e6_prev_bytes : list Z := match encode_outcome 1 p1 with Ok b => b | _ => [] end.
Definition e6_inp : obs_inp :=
  {| oi_now := 10 * s; oi_att := Ok []; oi_retire := Ok false; oi_expected := {[ 7 := nv_def ]}; oi_vals := ∅; oi_fails := false |}.
Definition e6_ss : list lsender := [LCorrect e6_inp [] [(7, nv_def)] []; LFaulty [255; 255]; LCorrect e6_inp [] [(7, nv_def)] []; LCorrect e6_inp [] [(7, nv_def)] []].
Definition e6_tagged := tagged (fun _ => None) (fun _ => true) nv_cf 2 e6_prev_bytes e6_ss.

Lemma e6_senders_ok : lsenders_ok (fun _ => true) nv_cf 2 e6_prev_bytes e6_ss.
Proof.
  intros i rms ups vals Hin.
  assert (Hcases : i = e6_inp /\ rms = [] /\ ups = [(7, nv_def)] /\ vals = []).
  { destruct Hin as [H|[H|[H|[H|[]]]]]; try discriminate; inversion H; subst; auto. }
  destruct Hcases as (-> & -> & -> & ->). split.
  - unfold inputs_wf, e6_inp. cbn [oi_now oi_expected oi_vals]. split; [unfold u64_ok; vm_compute; split; [discriminate|reflexivity]|]. split.
    + apply map_Forall_singleton. split; [unfold u32_ok; lia|]. unfold def_wf, nv_def. cbn [cd_fmt cd_streams]. split; [unfold u32_ok; lia|].
      constructor; [|constructor]. unfold stream_wf. cbn [fst snd]. unfold u32_ok. lia.
    + apply map_Forall_empty.
  - intros ro Ho.
    assert (Hro : ro = {| ro_att := []; ro_retire := false; ro_ts := 10 * s; ro_removes := []; ro_updates := {[ 7 := nv_def ]}; ro_values := ∅ |}).
    { vm_compute in Ho; inversion Ho; vm_compute; reflexivity. }
    subst ro. cbn [ro_removes ro_updates ro_values]. rewrite map_to_list_empty, map_to_list_singleton.
    split; [constructor|]. split; [apply Permutation_refl|]. split; [constructor|]. unfold small. vm_compute. reflexivity.
Qed.

Example e6_round :
  bok e6_prev_bytes /\ lsenders_ok (fun _ => true) nv_cf 2 e6_prev_bytes e6_ss /\
  (length (List.filter (fun p : option observation * bool => negb (snd p)) e6_tagged) <= c_f nv_cf)%nat /\
  match outcome_step nv_h nv_cf 2 p1 (map fst e6_tagged) with
  | Ok next => o_defs next !! 7 = Some nv_def /\ o_defs p1 !! 7 = None
  | _ => False end.
Proof.
  split; [apply Forall_forall; intros b Hb; vm_compute in Hb; repeat (destruct Hb as [<-|Hb]; [lia|]); destruct Hb|].
  split; [exact e6_senders_ok|]. split; [vm_compute; lia|]. vm_compute. split; reflexivity.
Qed.

(* ---- C15: a channel over (stream 4, mode); three correct nodes whose data sources return 5, one sender claims 7 ---- *)
Definition m_def : chandef := {| cd_fmt := 1; cd_streams := [(4, 2)]; cd_opts := [] |}.
Definition m_p2 := get (outcome_step nv_h nv_cf 2 p1 (nv_round (10 * s) {[ 9 := m_def ]} [] false NoAttest (9 * s))).
Definition m_prev_bytes : list Z := match encode_outcome 1 m_p2 with Ok b => b | _ => [] end.
Definition m_inp : obs_inp :=
  {| oi_now := 12 * s; oi_att := Ok []; oi_retire := Ok false; oi_expected := {[ 9 := m_def ]};
     oi_vals := {[ 4 := SDec (mkdec 5 0) ]}; oi_fails := false |}.
Definition m_correct : lsender := LCorrect m_inp [] [] [(4, SDec (mkdec 5 0))].
Definition m_faulty : lsender :=
  LFaulty (encode_observation [] [] [(4, SDec (mkdec 7 0))]
            {| ro_att := []; ro_retire := false; ro_ts := 12 * s; ro_removes := []; ro_updates := ∅; ro_values := {[ 4 := SDec (mkdec 7 0) ]} |}).
Definition m_ss : list lsender := [m_correct; m_faulty; m_correct; m_correct].
Definition m_tagged := tagged (fun _ => None) (fun _ => true) nv_cf 3 m_prev_bytes m_ss.

Lemma m_senders_ok : lsenders_ok (fun _ => true) nv_cf 3 m_prev_bytes m_ss.
Proof.
  intros i rms ups vals Hin.
  assert (Hcases : i = m_inp /\ rms = [] /\ ups = [] /\ vals = [(4, SDec (mkdec 5 0))]).
  { destruct Hin as [H|[H|[H|[H|[]]]]]; try discriminate; inversion H; subst; auto. }
  destruct Hcases as (-> & -> & -> & ->). split.
  - unfold inputs_wf, m_inp. cbn [oi_now oi_expected oi_vals]. split; [unfold u64_ok; vm_compute; split; [discriminate|reflexivity]|]. split.
    + apply map_Forall_singleton. split; [unfold u32_ok; lia|]. unfold def_wf, m_def. cbn [cd_fmt cd_streams]. split; [unfold u32_ok; lia|].
      constructor; [|constructor]. unfold stream_wf. cbn [fst snd]. unfold u32_ok. lia.
    + apply map_Forall_singleton. split; [unfold u32_ok; lia|]. split; [|cbn; lia]. cbn [sval_ok]. unfold exp_ok. cbn. lia.
  - intros ro Ho.
    assert (Hro : ro = {| ro_att := []; ro_retire := false; ro_ts := 12 * s; ro_removes := []; ro_updates := ∅;
                          ro_values := {[ 4 := SDec (mkdec 5 0) ]} |}).
    { vm_compute in Ho; inversion Ho; vm_compute; reflexivity. }
    subst ro. cbn [ro_removes ro_updates ro_values]. rewrite map_to_list_empty, map_to_list_singleton.
    split; [constructor|]. split; [constructor|]. split; [apply Permutation_refl|]. unfold small. vm_compute. reflexivity.
Qed.

Example m_round :
  bok m_prev_bytes /\ lsenders_ok (fun _ => true) nv_cf 3 m_prev_bytes m_ss /\
  (forall i rms ups vals, In (LCorrect i rms ups vals) m_ss -> map_Forall (fun _ x => small (sval_marshal x)) (oi_vals i)) /\
  match outcome_step nv_h nv_cf 3 m_p2 (map fst m_tagged) with
  | Ok next => o_aggs next !! (4, 2) = Some (SDec (mkdec 5 0))
  | _ => False end /\
  (length (List.filter (fun p : option sval * bool => match fst p with Some _ => negb (snd p) | None => false end)
                       (accepted_vals m_tagged 4)) <= c_f nv_cf)%nat.
Proof.
  split; [apply Forall_forall; intros b Hb; vm_compute in Hb; repeat (destruct Hb as [<-|Hb]; [lia|]); destruct Hb|].
  split; [exact m_senders_ok|]. split.
  { intros i rms ups vals Hin. assert (i = m_inp) as -> by (destruct Hin as [H|[H|[H|[H|[]]]]]; try discriminate; inversion H; reflexivity).
    apply map_Forall_singleton. unfold small. vm_compute. reflexivity. }
  split; [vm_compute; reflexivity|vm_compute; lia].
Qed.

(* ---- C14: the same round as the C06 one (three correct nodes whose caches hold {7 := nv_def}, one sender of garbage) meets
   the hypotheses of the end-to-end one-round theorem ---- *)
From DS Require Import Converge ConvergeProofs.
Definition e14_prev : outcome := match decode_outcome 1 e6_prev_bytes with Ok p => p | _ => p1 end.
Definition e14_target : gmap Z chandef := {[ 7 := nv_def ]}.
Example e14_round :
  decode_outcome (c_pver nv_cf) e6_prev_bytes = Ok e14_prev /\ o_stage e14_prev = Production /\
  verify_defs (fun _ => true) e14_target = true /\
  (forall i rms ups vals, In (LCorrect i rms ups vals) e6_ss -> oi_expected i = e14_target) /\
  (length (List.filter (fun p : option observation * bool => negb (snd p)) e6_tagged) <= c_f nv_cf)%nat /\
  (c_f nv_cf < length (List.filter (fun p : observation * bool => snd p) (accept_tagged false e6_tagged)))%nat /\
  (size (dom (o_defs e14_prev) ∪ dom e14_target) <= chan_cap)%nat /\
  match outcome_step nv_h nv_cf 2 e14_prev (map fst e6_tagged) with
  | Ok next => o_stage next <> Retired /\ o_defs next !! 7 = Some nv_def
  | _ => False end.
Proof.
  split; [vm_compute; reflexivity|]. split; [vm_compute; reflexivity|]. split; [vm_compute; reflexivity|].
  split; [intros i rms ups vals Hin; destruct Hin as [H|[H|[H|[H|[]]]]]; try discriminate; inversion H; reflexivity|].
  split; [vm_compute; lia|]. split; [vm_compute; lia|]. split; [vm_compute; lia|].
  vm_compute. split; [discriminate|reflexivity].
Qed.

(* ---- C14 convergence: that round as a one-round history ---- *)
Definition e14_next : outcome := match outcome_step nv_h nv_cf 2 e14_prev (map fst e6_tagged) with Ok o => o | _ => e14_prev end.
Definition e14_r0 : wround := {| wr_seq := 2; wr_prev_bytes := e6_prev_bytes; wr_prev := e14_prev; wr_ss := e6_ss; wr_next := e14_next |}.
Example e14_history :
  verify_defs (fun _ => true) e14_target = true /\
  Forall (wround_ok nv_h (fun _ => None) (fun _ => true) nv_cf e14_target) [e14_r0] /\ wlinked [e14_r0] /\
  (size (dom (o_defs (wr_prev e14_r0)) ∪ dom e14_target) <= chan_cap)%nat /\
  (rounds_bound (o_defs (wr_prev e14_r0)) e14_target <= length [e14_r0])%nat /\
  o_defs (wr_next e14_r0) = e14_target.
Proof.
  destruct e14_round as (H1 & H2 & H3 & H4 & H5 & H6 & H7 & H8). destruct e6_round as (Hb & Hok & _).
  split; [exact H3|]. split.
  { constructor; [|constructor]. unfold wround_ok, e14_r0, wr_tagged, wr_acc. cbn [wr_seq wr_prev_bytes wr_prev wr_ss wr_next].
    split; [exact Hb|]. split; [exact Hok|]. split; [lia|]. split; [exact H1|]. split; [exact H2|]. split; [exact H4|].
    split; [exact H5|]. split; [exact H6|]. unfold e14_next.
    destruct (outcome_step nv_h nv_cf 2 e14_prev (map fst e6_tagged)) as [o| |] eqn:E; try contradiction.
    split; [exact E|exact (proj1 H8)]. }
  split; [exact I|]. split; [exact H7|]. split; [vm_compute; lia|]. vm_compute. reflexivity.
Qed.
