(* C15 — the LLO mode aggregate was reported identically by at least f+1 observers. *)
From DS Require Import Base Decimal StreamValue Sort Aggregators.
From DS Require Import MctProofs ModeProofs.
From DS Require Outcome OutcomeAggRange OutcomeEndToEnd OutcomeRoundTrip ReportsNoPanic NvHistory NvE2E.
From Coq Require Import Permutation.

(* a value is returned only if >= f+1 values of the most common type have byte-identical serialisations,
   and the returned value is the decoding of exactly those bytes *)
Theorem C15_mode_some_implies_f_plus_1 : forall vs f v,
  mode_agg vs f = Ok (Some v) ->
  exists typ bucket ser x,
    most_common_type vs = (typ, bucket) /\ In x bucket /\ sval_marshal x = ser /\
    (f + 1 <= count_key ser (map sval_marshal bucket))%nat /\
    sval_unmarshal typ ser = Ok v.
Proof. exact mode_some_implies_f_plus_1. Qed.
Print Assumptions C15_mode_some_implies_f_plus_1.

(* so with at most f faulty present values a correct observer reported exactly these bytes *)
Theorem C15_mode_honest_witness : forall (tvs : list (option sval * bool)) f v,
  (length (filter (fun p => match fst p with Some _ => negb (snd p) | None => false end) tvs) <= f)%nat ->
  mode_agg (map fst tvs) f = Ok (Some v) ->
  exists x ser, In (Some x, true) tvs /\ sval_marshal x = ser /\ sval_unmarshal (sv_type x) ser = Ok v.
Proof. exact mode_honest_witness. Qed.
Print Assumptions C15_mode_honest_witness.

(* the choice is a function of the multiset of values: independent of observation order *)
Theorem C15_mode_permutation_invariant : forall vs vs' f, Permutation vs vs' -> mode_agg vs f = mode_agg vs' f.
Proof. exact mode_permutation_invariant. Qed.
Print Assumptions C15_mode_permutation_invariant.

(* the most common type is the largest bucket, ties to the lowest enum value *)
Theorem C15_most_common_type_spec : forall vs,
  let '(t, bk) := most_common_type vs in
  is_type t /\ bk = of_type t vs /\
  (forall t', is_type t' -> (length (of_type t' vs) <= length bk)%nat) /\
  (forall t', is_type t' -> length (of_type t' vs) = length bk -> t <= t').
Proof. exact most_common_type_spec. Qed.

(* otherwise: an error, hence no fresh aggregate *)
Theorem C15_mode_err_otherwise : forall vs f,
  (forall ser, (count_key ser (map sval_marshal (snd (most_common_type vs))) <= f)%nat) ->
  mode_agg vs f = Err ETooFew.
Proof. exact mode_err_otherwise. Qed.
Print Assumptions C15_mode_err_otherwise.

(* end to end (OutcomeEndToEnd): senders are correct nodes (Plugin.Observation of their inputs, marshalled in any map
   order) or arbitrary bytes; with at most f faulty present values for the stream, a Decimal / Quote the new outcome holds
   for a (stream, mode) pair is a value that some correct node's DATA SOURCE returned for that stream *)
Theorem C15_llo_mode_from_a_correct_data_source :
  forall h check codec_ok cf seq prev_bytes (ss : list OutcomeEndToEnd.lsender) prev next sid v,
  ReportsNoPanic.bok prev_bytes -> OutcomeEndToEnd.lsenders_ok codec_ok cf seq prev_bytes ss -> 1 < seq ->
  (forall i rms ups vals, In (OutcomeEndToEnd.LCorrect i rms ups vals) ss ->
     stdpp.fin_maps.map_Forall (fun _ x => OutcomeRoundTrip.small (sval_marshal x)) (OutcomeEndToEnd.oi_vals i)) ->
  Outcome.outcome_step h cf seq prev (map fst (OutcomeEndToEnd.tagged check codec_ok cf seq prev_bytes ss)) = Ok next ->
  stdpp.base.lookup (sid, 2) (Outcome.o_aggs next) = Some v -> OutcomeEndToEnd.not_tsv v ->
  (length (List.filter (fun p : option sval * bool => match fst p with Some _ => negb (snd p) | None => false end)
                       (OutcomeAggRange.accepted_vals (OutcomeEndToEnd.tagged check codec_ok cf seq prev_bytes ss) sid)) <= Outcome.c_f cf)%nat ->
  exists i, (exists rms ups vals, In (OutcomeEndToEnd.LCorrect i rms ups vals) ss) /\
            stdpp.base.lookup sid (OutcomeEndToEnd.oi_vals i) = Some v.
Proof. exact OutcomeEndToEnd.llo_mode_from_a_correct_data_source. Qed.
Print Assumptions C15_llo_mode_from_a_correct_data_source.

Example C15_nv_end_to_end :
  ReportsNoPanic.bok NvE2E.m_prev_bytes /\ OutcomeEndToEnd.lsenders_ok (fun _ => true) NvHistory.nv_cf 3 NvE2E.m_prev_bytes NvE2E.m_ss /\
  (forall i rms ups vals, In (OutcomeEndToEnd.LCorrect i rms ups vals) NvE2E.m_ss ->
     stdpp.fin_maps.map_Forall (fun _ x => OutcomeRoundTrip.small (sval_marshal x)) (OutcomeEndToEnd.oi_vals i)) /\
  match Outcome.outcome_step NvHistory.nv_h NvHistory.nv_cf 3 NvE2E.m_p2 (map fst NvE2E.m_tagged) with
  | Ok next => stdpp.base.lookup (4, 2) (Outcome.o_aggs next) = Some (SDec (mkdec 5 0))
  | _ => False end /\
  (length (List.filter (fun p : option sval * bool => match fst p with Some _ => negb (snd p) | None => false end)
                       (OutcomeAggRange.accepted_vals NvE2E.m_tagged 4)) <= Outcome.c_f NvHistory.nv_cf)%nat.
Proof. exact NvE2E.m_round. Qed.

(* non-vacuity: f = 1, {1.10, 1.10, 1.1(different bytes), Quote} -> 1.10; a 1/1 tie -> error *)
Example C15_nv :
  mode_agg [Some (SDec (mkdec 110 (-2))); Some (SDec (mkdec 11 (-1))); Some (SDec (mkdec 110 (-2))); None] 1
    = Ok (Some (SDec (mkdec 110 (-2)))) /\
  mode_agg [Some (SDec (mkdec 110 (-2))); Some (SDec (mkdec 11 (-1)))] 1 = Err ETooFew.
Proof. vm_compute. split; reflexivity. Qed.
