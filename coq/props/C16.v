(* C16 — observation, stream-value and configuration wire codecs round-trip and validate.
   Proved: binary round-trip of every stream value; configuration / value codecs (LLO offchain: accepted on decode
   exactly when valid — defect D5 repaired; LLO and Mercury onchain; int192); their documented rejections.
   The observation envelope is proved at byte level for ANY order of the two proto map fields and of the removal ids
   (C16_observation_roundtrip); the retirement report through its JSON codec at byte level (C16_retirement_roundtrip).
   and the Mercury offchain config (JSON with the fee as a quoted decimal string, C16_mercury_offchain_roundtrip).
   The two JSON decoders are modelled on the canonical shapes their encoders produce; encoding/json's treatment of
   other inputs (whitespace, field order, duplicates) is library behaviour, not modelled. *)
From stdpp Require Import gmap.
From DS Require Import Base Decimal Wire StreamValue Config Outcome OutcomeCodec ObservationCodec.
From DS Require Import RetirementJson.
From DS Require Import WireProofs StreamValueProofs ConfigProofs OutcomeRoundTrip ObservationRoundTrip RetirementProofs ReportsNoPanic DecodedObsWf.
Open Scope Z_scope.

(* stream values: Decimal (any sign incl. negative zero, any int32 scale), Quote, TimestampedStreamValue *)
Theorem C16_gob_roundtrip : forall b, gob_decode (gob_encode b) = Ok b.
Proof. exact gob_roundtrip. Qed.
Theorem C16_decimal_roundtrip : forall d, exp_ok d -> dec_unmarshal (dec_marshal d) = Ok d.
Proof. exact dec_roundtrip. Qed.
Theorem C16_sval_binary_roundtrip : forall v,
  sval_ok v -> sval_small v -> (sval_depth v <= 2)%nat -> sval_unmarshal (sv_type v) (sval_marshal v) = Ok v.
Proof. exact sval_roundtrip. Qed.
Print Assumptions C16_sval_binary_roundtrip.

(* the observation envelope, byte level.  rms / ups / vals are the orders in which the encoder happened to emit the
   removal ids and the entries of the two proto maps (any permutation: Go's map iteration and proto.Marshal do not
   fix them).  obs_wf: ids are uint32, the timestamp is a uint64 (full range: above MaxInt64 the legacy field is
   negative and the new field carries it), decimal scales are int32, timestamped values are not nested more than twice.
   Decoding returns exactly the observation (removal ids in the emitted order), or refuses a duplicated removal id. *)
Theorem C16_observation_roundtrip : forall rms ups vals ob,
  obs_wf ob ->
  Permutation rms (ro_removes ob) -> Permutation ups (map_to_list (ro_updates ob)) -> Permutation vals (map_to_list (ro_values ob)) ->
  small (encode_observation rms ups vals ob) ->
  decode_observation (encode_observation rms ups vals ob) =
  if has_dup rms then Err EInvalid
  else Ok {| ro_att := ro_att ob; ro_retire := ro_retire ob; ro_ts := ro_ts ob; ro_removes := rms;
             ro_updates := ro_updates ob; ro_values := ro_values ob |}.
Proof. exact observation_roundtrip. Qed.
Print Assumptions C16_observation_roundtrip.
(* arbitrary bytes: whatever the observation decoder accepts is well-formed (uint32 ids and keys, uint64 timestamp,
   definitions with uint32 fields, values with int32 scales / uint64 times / nesting <= 2) *)
Theorem C16_decoded_observation_wf : forall bs ob, decode_observation bs = Ok ob -> bok bs -> raw_obs_wf ob.
Proof. exact decoded_observation_wf. Qed.
Print Assumptions C16_decoded_observation_wf.
Theorem C16_no_duplicate_means_accepted : forall l, List.NoDup l -> has_dup l = false.
Proof. exact has_dup_nodup. Qed.

(* retirement report (encoding/json of RetirementReport; map keys sorted as STRINGS, nil map = null): decoding the
   bytes the predecessor's codec wrote returns the protocol version and every validity start, any number of channels *)
Theorem C16_retirement_roundtrip : forall pver va,
  0 <= pver -> (forall m, va = Some m -> map_Forall (fun k v => 0 <= k /\ 0 <= v) m) ->
  rr_decode (rr_encode pver va) = Some (pver, va).
Proof. exact rr_roundtrip. Qed.
Print Assumptions C16_retirement_roundtrip.
Example C16_nv_retirement :
  rr_encode 1 (Some (list_to_map [(2, 5); (10, 7); (1, 18446744073709551615)])) =
    str_bytes "{""ProtocolVersion"":1,""ValidAfterNanoseconds"":{""1"":18446744073709551615,""10"":7,""2"":5}}" /\
  rr_encode 0 None = str_bytes "{""ProtocolVersion"":0,""ValidAfterNanoseconds"":null}".
Proof. split; vm_compute; reflexivity. Qed.

(* Mercury offchain config: {"expirationWindow":N,"baseUSDFee":"<Decimal.String()>"}; the fee comes back as the same number *)
Theorem C16_mercury_offchain_roundtrip : forall window fee, 0 <= window ->
  exists fee', merc_off_decode (merc_off_encode window fee) = Some (window, fee') /\ deqvb fee fee' = true.
Proof. exact merc_off_roundtrip. Qed.
Print Assumptions C16_mercury_offchain_roundtrip.

(* LLO offchain config: round-trips when valid (version 0 with interval 0, version 1 with interval >= 1), is an
   error otherwise; undecodable bytes give the documented zero configuration *)
Theorem C16_offchain_accept_iff_valid : forall c, offchain_wf c ->
  (offchain_valid c = true -> offchain_decode (offchain_encode c) = Ok c) /\
  (offchain_valid c = false -> offchain_decode (offchain_encode c) = Err EInvalid).
Proof. exact offchain_accept_iff_valid. Qed.
Print Assumptions C16_offchain_accept_iff_valid.
Example C16_offchain_prefix_refuted_D5 :
  offchain_valid {| oc_version := 1; oc_min_interval := 0 |} = false /\
  is_ok (offchain_decode_prefix (offchain_encode {| oc_version := 1; oc_min_interval := 0 |})) = true /\
  offchain_valid {| oc_version := 7; oc_min_interval := 3 |} = false /\
  is_ok (offchain_decode_prefix (offchain_encode {| oc_version := 7; oc_min_interval := 3 |})) = true.
Proof. exact offchain_prefix_refuted. Qed.

(* fixed-width two's-complement words (bigbigendian): int192 values and the EVM config words *)
Theorem C16_signed_roundtrip : forall n v bs, (0 < n)%nat -> ser_signed n v = Ok bs -> deser_signed n bs = Ok v.
Proof. exact signed_roundtrip. Qed.
Theorem C16_signed_range : forall n v,
  (exists bs, ser_signed n v = Ok bs) <-> - 2 ^ (8 * Z.of_nat n - 1) <= v < 2 ^ (8 * Z.of_nat n - 1).
Proof. exact signed_range. Qed.
Theorem C16_int192_rejects_wrong_length : forall bs, length bs <> 24%nat -> decode_int192 bs = Err EMalformed.
Proof. intros bs. exact (deser_rejects_wrong_length 24 bs). Qed.
Print Assumptions C16_signed_roundtrip.

(* Mercury onchain config: round trip; accepted only with length 96, version 1, min <= max *)
Theorem C16_merc_onchain_roundtrip : forall c bs,
  merc_onchain_encode c = Ok bs -> mo_min c <= mo_max c -> merc_onchain_decode bs = Ok c.
Proof. exact merc_onchain_roundtrip. Qed.
Theorem C16_merc_onchain_rejects : forall bs c,
  merc_onchain_decode bs = Ok c -> length bs = 96%nat /\ twos_read (firstn 32 bs) = 1 /\ mo_min c <= mo_max c.
Proof. exact merc_onchain_rejects. Qed.
Print Assumptions C16_merc_onchain_roundtrip.

(* LLO onchain config: round trip; accepted only with length 64 and a version word equal to 1 as a 256-bit integer *)
Theorem C16_llo_onchain_roundtrip : forall c,
  (forall d, lo_pred c = Some d -> length d = 32%nat /\ forallb (Z.eqb 0) d = false) ->
  llo_onchain_decode (llo_onchain_encode c) = Ok c.
Proof. exact llo_onchain_roundtrip. Qed.
Theorem C16_llo_onchain_rejects : forall bs c,
  llo_onchain_decode bs = Ok c -> length bs = 64%nat /\ twos_read (firstn 32 bs) = 1.
Proof. exact llo_onchain_rejects. Qed.

(* non-vacuity *)
Example C16_nv :
  sval_unmarshal 2 (sval_marshal (STsv 5 (SDec (mkd true 0 (-3))))) = Ok (STsv 5 (SDec (mkd true 0 (-3)))) /\
  offchain_decode (offchain_encode {| oc_version := 1; oc_min_interval := 1000000000 |}) = Ok {| oc_version := 1; oc_min_interval := 1000000000 |} /\
  (match encode_int192 (- 2 ^ 191) with Ok b => decode_int192 b | _ => Err EOther end) = Ok (- 2 ^ 191) /\
  is_err (encode_int192 (2 ^ 191)) = true.
Proof. vm_compute. repeat split; reflexivity. Qed.
Definition C16_nv_ob : raw_observation :=
  {| ro_att := [1; 2; 3]; ro_retire := true; ro_ts := 2 ^ 64 - 1; ro_removes := [9; 0; 4];
     ro_updates := {[ 0 := {| cd_fmt := 2; cd_streams := [(1, 1); (0, 3)]; cd_opts := [123] |} ]};
     ro_values := {[ 0 := SDec (mkd true 5 (-2)); 7 := STsv 99 (SDec (mkdec 3 0)) ]} |}.
Example C16_nv_observation :
  obs_wf C16_nv_ob /\
  decode_observation (encode_observation [4; 9; 0] (map_to_list (ro_updates C16_nv_ob)) (rev (map_to_list (ro_values C16_nv_ob))) C16_nv_ob)
  = Ok {| ro_att := [1; 2; 3]; ro_retire := true; ro_ts := 2 ^ 64 - 1; ro_removes := [4; 9; 0];
          ro_updates := ro_updates C16_nv_ob; ro_values := ro_values C16_nv_ob |} /\
  decode_observation (encode_observation [4; 9; 4] [] [] C16_nv_ob) = Err EInvalid.
Proof.
  split; [|split; vm_compute; reflexivity].
  unfold obs_wf, C16_nv_ob; cbn [ro_ts ro_removes ro_updates ro_values].
  split; [unfold u64_ok; lia|]. split; [repeat constructor; unfold u32_ok; lia|].
  split. { apply map_Forall_singleton. split; [unfold u32_ok; lia|]. split; [unfold u32_ok; simpl; lia|].
           repeat constructor; unfold u32_ok; simpl; lia. }
  apply map_Forall_insert_2; [|apply map_Forall_singleton]; unfold sval_wf, u32_ok; cbn; unfold StreamValueProofs.exp_ok; cbn; lia.
Qed.

(* ---- the Mercury observation messages (v1-v4): proto.Marshal / proto.Unmarshal as modelled in MercuryObserve / MercuryWire
   (both compared byte for byte with the real library) round-trip for every well-formed message ---- *)
From DS Require MercuryReport MercuryWire MercuryObserve MercObserveProofs.
Theorem C16_mercury_observation_roundtrip : forall ver (m : MercuryReport.mobs), ver = 2 \/ ver = 3 \/ ver = 4 ->
  MercObserveProofs.mobs_wf ver m -> MercuryWire.merc_decode234 ver (MercuryObserve.merc_encode234 ver m) = Some m.
Proof. exact MercObserveProofs.merc_roundtrip234. Qed.
Theorem C16_mercury_observation1_roundtrip : forall (m : MercuryReport.mobs1),
  MercObserveProofs.mobs1_wf m -> MercuryWire.merc_decode1 (MercuryObserve.merc_encode1 m) = Some m.
Proof. exact MercObserveProofs.merc_roundtrip1. Qed.
Print Assumptions C16_mercury_observation_roundtrip.
Print Assumptions C16_mercury_observation1_roundtrip.
