(* C09 — Mercury consecutive reports chain without overlap or gap.
   Assumption on the external codec (codec_consistent): the timestamp (v1: block number) it extracts from a report
   is the one the report was built with; the threaded run below hands the emitted timestamp to the next round. *)
From DS Require Import Base Sort MercuryAgg Config MercuryReport MercuryReportProofs.
From DS Require MercuryObserve MercObserveProofs.

(* with a previous report: start exactly one past its end (no 32-bit wrap: repair B2), never after the new end *)
Theorem C09_v234_chain_step : forall ver c prev replen obs rf pts,
  prev = Some (Ok pts) -> 0 <= pts <= max_uint32 ->
  report234 ver c prev replen obs = Ok (true, Some rf) ->
  rf_valid_from rf = pts + 1 /\ rf_valid_from rf <= rf_ts rf.
Proof. exact v234_chain_step. Qed.
Print Assumptions C09_v234_chain_step.

Theorem C09_v1_chain_step : forall c prev replen obs rf pb,
  prev = Some (Ok pb) -> - 2 ^ 63 <= pb < 2 ^ 63 - 1 ->
  report1 c prev replen obs = Ok (true, Some rf) -> r1_valid_from rf = pb + 1 /\ r1_valid_from rf <= bnum (r1_cur rf).
Proof. exact v1_chain_step. Qed.
Print Assumptions C09_v1_chain_step.

(* over any threaded history: windows [validFrom, timestamp] of consecutive emitted reports are adjacent and disjoint *)
Theorem C09_mercury_chain : forall ver c replen rounds prev,
  (forall obs o, In obs rounds -> In o obs -> 0 <= mo_ts o) ->
  (forall p, prev = Some p -> 0 <= p <= max_uint32) ->
  adjacent prev (thread234 ver c replen prev rounds).
Proof. exact mercury_chain. Qed.
Print Assumptions C09_mercury_chain.

(* it declines without error (and without fields) or reports *)
Theorem C09_declines_without_fields : forall ver c prev replen obs b x,
  report234 ver c prev replen obs = Ok (b, x) -> (b = false /\ x = None) \/ (b = true /\ exists rf, x = Some rf).
Proof. exact v234_decline_or_report. Qed.

(* "the plugin declines to report - without error - when the new end would precede that start": previous report ending at pts,
   consensus timestamp below pts + 1, and nothing else wrong with the round (enough parsable observations, prices / market status
   agreed, no 32-bit overflow of start or expiry): the answer is (false, nil), never an error.  The evaluator's
   CasesMercReport.must_decline is this hypothesis list as a boolean, judged on the implementation's own answer. *)
Theorem C09_v234_must_decline : forall ver c prev replen obs pts ts,
  prev = Some (Ok pts) -> 0 <= pts < max_uint32 ->
  (mc_f c + 1 <= length (omap (parse234 ver) obs))%nat ->
  consensus_timestamp (map p_ts (omap (parse234 ver) obs)) = Ok ts -> ts < pts + 1 ->
  (max_uint32 <? ts + mc_window c) = false ->
  is_ok (consensus_price (map p_bm (omap (parse234 ver) obs)) (mc_f c)) = true ->
  (ver = 3 -> is_ok (consensus_price (map p_bid (omap (parse234 ver) obs)) (mc_f c)) = true /\
              is_ok (consensus_price (map p_ask (omap (parse234 ver) obs)) (mc_f c)) = true) ->
  (ver = 4 -> is_ok (market_status (map p_status (omap (parse234 ver) obs)) (mc_f c)) = true) ->
  report234 ver c prev replen obs = Ok (false, None).
Proof. exact v234_must_decline. Qed.
Print Assumptions C09_v234_must_decline.

(* the pre-repair arithmetic wrapped: previous timestamp 2^32-1 gave validFrom 0 (B2); MaxInt64 + 1 as agreed
   max-finalized value gave validFrom 0 (B8) — witnesses of the modular arithmetic *)
Example C09_prefix_wrap_refuted : (max_uint32 + 1) mod 2 ^ 32 = 0 /\ wrap64 (2 ^ 63 - 1 + 1) mod 2 ^ 32 = 0.
Proof. vm_compute. split; reflexivity. Qed.

(* the bootstrap end to end (MercObserveProofs): senders are correct nodes - the model of MercuryPlugin.Observation of what
   their data source returned, marshalled - or arbitrary bytes, at most f of the latter; with no previous report the validity
   start of an emitted report is one past a max-finalized timestamp that some correct node's data source returned, or, when
   that agreed value is negative ("none exists"), the report's own timestamp *)
Theorem C09_bootstrap_traces_to_a_correct_data_source : forall ver c base ss replen rf,
  ver = 2 \/ ver = 3 \/ ver = 4 -> MercObserveProofs.senders_ok ss ->
  (length (filter (fun s => negb (MercObserveProofs.is_correct s)) ss) <= mc_f c)%nat ->
  report234 ver c None replen (MercObserveProofs.decoded ver base ss) = Ok (true, Some rf) ->
  exists n d m, In (MercObserveProofs.Correct n d) ss /\ MercuryObserve.ds_mfts d = Some m /\
                rf_valid_from rf = if m <? 0 then rf_ts rf else m + 1.
Proof. exact MercObserveProofs.bootstrap_valid_from_traces_to_a_correct_data_source. Qed.
Print Assumptions C09_bootstrap_traces_to_a_correct_data_source.

(* non-vacuity: f = 1; three correct v3 nodes whose data sources return max-finalized 5 (prices around 1000) and one faulty
   sender of garbage: the report is emitted with validFrom = 6 *)
Definition C09_nv_ds (bm : Z) : MercuryObserve.ds234 :=
  {| MercuryObserve.ds_bm := Some bm; MercuryObserve.ds_bid := Some (bm - 1); MercuryObserve.ds_ask := Some (bm + 1);
     MercuryObserve.ds_mfts := Some 5; MercuryObserve.ds_link := Some (7 * 10 ^ 18); MercuryObserve.ds_native := Some (-1);
     MercuryObserve.ds_status := None |}.
Definition C09_nv_senders : list MercObserveProofs.sender :=
  [MercObserveProofs.Correct 1700000000 (C09_nv_ds 1000); MercObserveProofs.Faulty [255; 1];
   MercObserveProofs.Correct 1700000001 (C09_nv_ds 1002); MercObserveProofs.Correct 1700000002 (C09_nv_ds 1001)].
Example C09_nv_bootstrap :
  match report234 3 {| mc_f := 1; mc_min := 0; mc_max := 10 ^ 6; mc_window := 3600; mc_maxlen := 1000 |} None (fun _ => Ok 100%nat)
          (MercObserveProofs.decoded 3 (Decimal.mkdec 1 (-3)) C09_nv_senders) with
  | Ok (true, Some rf) => rf_valid_from rf = 6 /\ rf_ts rf = 1700000001
  | _ => False end.
Proof. vm_compute. split; reflexivity. Qed.

(* non-vacuity: a threaded run with a stall (second round declines: timestamp 101 < 102) *)
Definition w9 (v : Z) : bytes := match encode_int192 v with Ok b => b | _ => [] end.
Definition ob9 (ts : Z) : mobs :=
  {| mo_ts := ts; mo_prices_valid := true; mo_bm := w9 5; mo_bid := w9 5; mo_ask := w9 5; mo_mfts_valid := true; mo_mfts := -1;
     mo_link_valid := false; mo_link := []; mo_native_valid := false; mo_native := []; mo_status_valid := false; mo_status := 0 |}.
Example C09_nv :
  map (fun rf => (rf_valid_from rf, rf_ts rf))
      (thread234 2 {| mc_f := 1; mc_min := 0; mc_max := 10; mc_window := 0; mc_maxlen := 9 |} (fun _ => Ok 5%nat) None
                 [[ob9 101; ob9 101; ob9 101]; [ob9 100; ob9 101; ob9 101]; [ob9 105; ob9 104; ob9 106]])
  = [(101, 101); (102, 105)].
Proof. vm_compute. reflexivity. Qed.
