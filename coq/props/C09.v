(* C09 — Mercury consecutive reports chain without overlap or gap.
   Assumption on the external codec (codec_consistent): the timestamp (v1: block number) it extracts from a report
   is the one the report was built with; the threaded run below hands the emitted timestamp to the next round. *)
From DS Require Import Base Sort MercuryAgg Config MercuryReport MercuryReportProofs.

(* with a previous report: start exactly one past its end (no 32-bit wrap: repair B2), never after the new end *)
Theorem C09_v234_chain_step : forall ver c prev replen obs rf pts,
  prev = Some (Ok pts) -> 0 <= pts <= max_uint32 ->
  report234 ver c prev replen obs = Ok (true, Some rf) ->
  rf_valid_from rf = pts + 1 /\ rf_valid_from rf <= rf_ts rf.
Proof. exact v234_chain_step. Qed.
Print Assumptions C09_v234_chain_step.

Theorem C09_v1_chain_step : forall c prev replen obs rf pb,
  prev = Some (Ok pb) -> - 2 ^ 63 <= pb < 2 ^ 63 - 1 ->
  report1 c prev replen obs = Ok (true, Some rf) -> r1_valid_from rf = pb + 1 /\ r1_valid_from rf <= bnum (r1_cur rf).
Proof. exact v1_chain_step. Qed.
Print Assumptions C09_v1_chain_step.

(* over any threaded history: windows [validFrom, timestamp] of consecutive emitted reports are adjacent and disjoint *)
Theorem C09_mercury_chain : forall ver c replen rounds prev,
  (forall obs o, In obs rounds -> In o obs -> 0 <= mo_ts o) ->
  (forall p, prev = Some p -> 0 <= p <= max_uint32) ->
  adjacent prev (thread234 ver c replen prev rounds).
Proof. exact mercury_chain. Qed.
Print Assumptions C09_mercury_chain.

(* it declines without error (and without fields) or reports *)
Theorem C09_declines_without_fields : forall ver c prev replen obs b x,
  report234 ver c prev replen obs = Ok (b, x) -> (b = false /\ x = None) \/ (b = true /\ exists rf, x = Some rf).
Proof. exact v234_decline_or_report. Qed.

(* the pre-repair arithmetic wrapped: previous timestamp 2^32-1 gave validFrom 0 (B2); MaxInt64 + 1 as agreed
   max-finalized value gave validFrom 0 (B8) — witnesses of the modular arithmetic *)
Example C09_prefix_wrap_refuted : (max_uint32 + 1) mod 2 ^ 32 = 0 /\ wrap64 (2 ^ 63 - 1 + 1) mod 2 ^ 32 = 0.
Proof. vm_compute. split; reflexivity. Qed.

(* non-vacuity: a threaded run with a stall (second round declines: timestamp 101 < 102) *)
Definition w9 (v : Z) : bytes := match encode_int192 v with Ok b => b | _ => [] end.
Definition ob9 (ts : Z) : mobs :=
  {| mo_ts := ts; mo_prices_valid := true; mo_bm := w9 5; mo_bid := w9 5; mo_ask := w9 5; mo_mfts_valid := true; mo_mfts := -1;
     mo_link_valid := false; mo_link := []; mo_native_valid := false; mo_native := []; mo_status_valid := false; mo_status := 0 |}.
Example C09_nv :
  map (fun rf => (rf_valid_from rf, rf_ts rf))
      (thread234 2 {| mc_f := 1; mc_min := 0; mc_max := 10; mc_window := 0; mc_maxlen := 9 |} (fun _ => Ok 5%nat) None
                 [[ob9 101; ob9 101; ob9 101]; [ob9 100; ob9 101; ob9 101]; [ob9 105; ob9 104; ob9 106]])
  = [(101, 101); (102, 105)].
Proof. vm_compute. reflexivity. Qed.
