(* C04 — LLO predecessor-to-successor handover is gapless and overlap-free.
   The attestation verifier is external: an observation carries GoodAttest va only if the cache verified it;
   that va is the predecessor's retirement report (assumption: attestation cryptography is sound). *)
From stdpp Require Import gmap.
From DS Require Import Base Decimal StreamValue Aggregators Outcome OutcomeProofs StepTheorems HistoryProofs NvHistory.
From DS Require Import RetirementJson RetirementProofs.
From DS Require BytesHistory PluginOutcomeBytes NvWire.
Open Scope Z_scope.

(* predecessor: whatever happens after its last report of c (further rounds, retirement), the validity start it
   records — and hence puts into every retirement report — is where that report ended *)
Theorem C04_retirement_value_is_last_end : forall h cf ej rest c rj,
  Forall (valid_event h cf) (ej :: rest) -> linked (ej :: rest) -> rest <> [] ->
  report_of cf (ev_seq ej) (ev_next ej) c rj ->
  (forall e, e ∈ removelast rest -> reportable cf (ev_next e) c = false) ->
  (forall e, e ∈ rest -> ~ promotion e /\ ~ voted_out cf e c) ->
  o_va (ev_next (last rest ej)) !! c = Some (trunc_va (c_pver cf) (r_ts rj)).
Proof. exact retirement_value_is_last_end. Qed.
Print Assumptions C04_retirement_value_is_last_end.

(* a retired instance produces exactly one retirement report with those validity starts and no channel report *)
Theorem C04_retired_emits_only_retirement_report : forall cf seq o,
  1 < seq -> o_stage o = Retired -> reports_of cf seq o = (Some (o_va o), []).
Proof. exact retired_emits_only_retirement_report. Qed.

(* ... and the report survives its transport: what the successor decodes from the attested bytes is exactly the map
   of validity starts the retired predecessor put in (JSON codec, any number of channels) *)
Theorem C04_retirement_report_transport : forall pver (va : gmap Z Z),
  0 <= pver -> map_Forall (fun k v => 0 <= k /\ 0 <= v) va ->
  rr_decode (rr_encode pver (Some va)) = Some (pver, Some va).
Proof. intros pver va Hp Hm. apply rr_roundtrip; [exact Hp|]. intros m H. inversion H; subst. exact Hm. Qed.
Print Assumptions C04_retirement_report_transport.

(* successor: promotion happens only on a verified attestation and adopts its validity starts wholesale *)
Theorem C04_promotion_adopts : forall h cf e,
  valid_event h cf e -> promotion e ->
  exists rva ob, Some ob ∈ ev_aos e /\ ob_att ob = GoodAttest rva /\ c_has_pred cf = true /\
    (rva <> ∅ -> forall c v, rva !! c = Some v -> ~ voted_out cf e c ->
       o_va (ev_next e) !! c = Some (trunc_va (c_pver cf) v)).
Proof. exact promotion_adopts. Qed.
Print Assumptions C04_promotion_adopts.

(* the successor's first report of a channel listed in the adopted report starts exactly at the recorded value,
   also when the channel is only defined many rounds after the promotion (ep = promotion event, the report
   comes from the last event of ep :: rest, no report of c before) *)
Theorem C04_handover_start : forall h cf ep rest c v rq rva,
  Forall (valid_event h cf) (ep :: rest) -> linked (ep :: rest) ->
  promotion ep ->
  (exists ob, Some ob ∈ ev_aos ep /\ ob_att ob = GoodAttest rva) ->
  (forall rr obs, accept_observations (c_has_pred cf) (ev_aos ep) = Ok (rr, obs) -> rr = Some rva) ->
  rva <> ∅ -> rva !! c = Some v ->
  ~ voted_out cf ep c ->
  (forall e, e ∈ rest -> ~ promotion e /\ ~ voted_out cf e c) ->
  (forall e, e ∈ removelast (ep :: rest) -> reportable cf (ev_next e) c = false) ->
  report_of cf (ev_seq (last rest ep)) (ev_next (last rest ep)) c rq ->
  r_va rq = trunc_va (c_pver cf) v.
Proof. exact handover_start. Qed.
Print Assumptions C04_handover_start.

(* only a production instance emits non-specimen reports: the successor's reports before promotion are all
   specimen, so non-specimen windows of the two instances cannot overlap *)
Theorem C04_non_production_reports_are_specimen : forall cf seq o r,
  r ∈ snd (reports_of cf seq o) -> o_stage o <> Production -> r_specimen r = true.
Proof. exact non_production_reports_are_specimen. Qed.
Print Assumptions C04_non_production_reports_are_specimen.

(* non-vacuity: P's last report of channel 7 ends at 15s+5ns; P retires; S is promoted on P's retirement report
   while defining nothing, defines channel 7 one round later and its first report starts at 15s+5ns *)
Example C04_nv :
  o_stage p6 = Retired /\ o_va p6 !! 7 = Some (15 * s + 5) /\ fst (reports_of nv_cf 6 p6) = Some (o_va p6) /\
  o_stage s1 = Staging /\ o_stage s2 = Production /\ o_defs s2 !! 7 = None /\ o_va s2 !! 7 = Some (15 * s + 5) /\
  o_defs s3 !! 7 = Some nv_def /\
  map (fun r => (r_chan r, r_va r, r_ts r, r_specimen r)) (snd (reports_of nv_cf_s 3 s3)) = [(7, 15 * s + 5, 20 * s + 5, false)].
Proof. vm_compute. repeat split; reflexivity. Qed.

(* the handover laws over histories ON THE WIRE (BytesHistory: byte-level events of Plugin.Outcome linked by their bytes) *)
Theorem C04_retirement_value_is_last_end_on_the_wire : forall h check cf (bj : BytesHistory.bevent) (rest : list BytesHistory.bevent) c rj,
  BytesHistory.check_typed check -> Forall (BytesHistory.bvalid h check cf) (bj :: rest) -> BytesHistory.blinked (bj :: rest) -> rest <> [] ->
  report_of cf (BytesHistory.bv_seq bj) (BytesHistory.dec_or_initial cf (BytesHistory.bv_next bj)) c rj ->
  (forall b, In b (removelast rest) -> reportable cf (BytesHistory.dec_or_initial cf (BytesHistory.bv_next b)) c = false) ->
  (forall b, In b rest -> ~ promotion (BytesHistory.abs_event check cf b) /\ ~ voted_out cf (BytesHistory.abs_event check cf b) c) ->
  o_va (BytesHistory.dec_or_initial cf (BytesHistory.bv_next (last rest bj))) !! c = Some (trunc_va (c_pver cf) (r_ts rj)).
Proof. exact BytesHistory.retirement_value_is_last_end_on_the_wire. Qed.
Print Assumptions C04_retirement_value_is_last_end_on_the_wire.

Theorem C04_promotion_adopts_on_the_wire : forall h check cf (b : BytesHistory.bevent),
  BytesHistory.check_typed check -> BytesHistory.bvalid h check cf b -> promotion (BytesHistory.abs_event check cf b) ->
  exists rva ob, Some ob ∈ map (PluginOutcomeBytes.obs_of_bytes check) (BytesHistory.bv_obs b) /\ ob_att ob = GoodAttest rva /\ c_has_pred cf = true /\
    (rva <> ∅ -> forall c v, rva !! c = Some v -> ~ voted_out cf (BytesHistory.abs_event check cf b) c ->
       o_va (BytesHistory.dec_or_initial cf (BytesHistory.bv_next b)) !! c = Some (trunc_va (c_pver cf) v)).
Proof. exact BytesHistory.promotion_adopts_on_the_wire. Qed.
Print Assumptions C04_promotion_adopts_on_the_wire.

Theorem C04_handover_start_on_the_wire : forall h check cf (bp : BytesHistory.bevent) (rest : list BytesHistory.bevent) c v rq rva,
  BytesHistory.check_typed check -> Forall (BytesHistory.bvalid h check cf) (bp :: rest) -> BytesHistory.blinked (bp :: rest) ->
  promotion (BytesHistory.abs_event check cf bp) ->
  (exists ob, Some ob ∈ map (PluginOutcomeBytes.obs_of_bytes check) (BytesHistory.bv_obs bp) /\ ob_att ob = GoodAttest rva) ->
  (forall rr obs, accept_observations (c_has_pred cf) (map (PluginOutcomeBytes.obs_of_bytes check) (BytesHistory.bv_obs bp)) = Ok (rr, obs) -> rr = Some rva) ->
  rva <> ∅ -> rva !! c = Some v ->
  ~ voted_out cf (BytesHistory.abs_event check cf bp) c ->
  (forall b, In b rest -> ~ promotion (BytesHistory.abs_event check cf b) /\ ~ voted_out cf (BytesHistory.abs_event check cf b) c) ->
  (forall b, In b (removelast (bp :: rest)) -> reportable cf (BytesHistory.dec_or_initial cf (BytesHistory.bv_next b)) c = false) ->
  report_of cf (BytesHistory.bv_seq (last rest bp)) (BytesHistory.dec_or_initial cf (BytesHistory.bv_next (last rest bp))) c rq ->
  r_va rq = trunc_va (c_pver cf) v.
Proof. exact BytesHistory.handover_start_on_the_wire. Qed.
Print Assumptions C04_handover_start_on_the_wire.

(* non-vacuity on the wire (props/NvWire.v): rounds 5 (last report of channel 7, ending at 15 s + 5 ns) and 6 (retirement) as linked
   byte-level events; the retired outcome bytes record that instant for channel 7 *)
Example C04_nv_on_the_wire :
  Forall (BytesHistory.bvalid nv_h NvWire.w_check nv_cf) [NvWire.w_e5; NvWire.w_e6] /\ BytesHistory.blinked [NvWire.w_e5; NvWire.w_e6] /\
  o_stage (BytesHistory.dec_or_initial nv_cf (BytesHistory.bv_next NvWire.w_e6)) = Retired /\
  o_va (BytesHistory.dec_or_initial nv_cf (BytesHistory.bv_next NvWire.w_e6)) !! 7 = Some (15 * s + 5).
Proof. destruct NvWire.w_votes as (_ & _ & _ & _ & _ & H6 & H7 & H8 & H9). exact (conj H7 (conj H8 (conj H6 H9))). Qed.
