(* C03 — LLO per-channel report windows tile time: no gap, no overlap, never empty.
   Histories are lists of events (successful Outcome calls linked by next_i = prev_{i+1}); an erroring round
   commits nothing.  No honesty assumption: timestamps and votes are arbitrary. *)
From stdpp Require Import gmap.
From DS Require Import Base Decimal StreamValue Aggregators Config Outcome PluginFactory OutcomeProofs StepTheorems HistoryProofs NvHistory.
From DS Require FactoryProofs BytesHistory ReportsNoPanic OutcomeRoundTrip PluginOutcomeBytes NvWire.
Open Scope Z_scope.

(* consecutive reports rj (from event ej) and rk (from event ek) of channel c, no report of c in between,
   c not voted out (more than f removal votes) and no promotion on the way:
   the start of rk is the observation timestamp of rj (floored to seconds under protocol version 0), and it
   is strictly before rk's own observation timestamp — in different seconds for one-second formats *)
Theorem C03_chain : forall h cf ej mid ek c rj rk,
  cfg_accepted cf ->
  Forall (valid_event h cf) (ej :: mid ++ [ek]) -> linked (ej :: mid ++ [ek]) ->
  report_of cf (ev_seq ej) (ev_next ej) c rj ->
  report_of cf (ev_seq ek) (ev_next ek) c rk ->
  (forall e, e ∈ mid -> reportable cf (ev_next e) c = false) ->
  (forall e, e ∈ mid ++ [ek] -> ~ promotion e /\ ~ voted_out cf e c) ->
  r_va rk = trunc_va (c_pver cf) (r_ts rj) /\
  r_va rk < r_ts rk /\
  (c_pver cf = 0 \/ is_seconds_resolution (cd_fmt (r_def rk)) = true -> r_va rk / ns_per_s < r_ts rk / ns_per_s).
Proof. exact HistoryProofs.C03_chain. Qed.
Print Assumptions C03_chain.

(* on-chain windows [floor(start/1s)+1, floor(end/1s)] of consecutive reports: adjacent, disjoint, non-empty *)
Theorem C03_onchain_windows_adjacent_disjoint : forall h cf ej mid ek c rj rk,
  cfg_accepted cf ->
  Forall (valid_event h cf) (ej :: mid ++ [ek]) -> linked (ej :: mid ++ [ek]) ->
  report_of cf (ev_seq ej) (ev_next ej) c rj ->
  report_of cf (ev_seq ek) (ev_next ek) c rk ->
  (forall e, e ∈ mid -> reportable cf (ev_next e) c = false) ->
  (forall e, e ∈ mid ++ [ek] -> ~ promotion e /\ ~ voted_out cf e c) ->
  (c_pver cf = 0 \/ is_seconds_resolution (cd_fmt (r_def rk)) = true) ->
  let start_k := r_va rk / ns_per_s + 1 in let end_k := r_ts rk / ns_per_s in let end_j := r_ts rj / ns_per_s in
  start_k = end_j + 1 /\ start_k <= end_k.
Proof. exact HistoryProofs.C03_onchain_windows_adjacent_disjoint. Qed.
Print Assumptions C03_onchain_windows_adjacent_disjoint.

(* every report (also the first of a channel) has a non-empty window *)
Theorem C03_window_nonempty : forall cf seq o c r,
  cfg_accepted cf -> report_of cf seq o c r ->
  r_va r < r_ts r /\
  (c_pver cf = 0 \/ is_seconds_resolution (cd_fmt (r_def r)) = true -> r_va r / ns_per_s < r_ts r / ns_per_s).
Proof. exact (HistoryProofs.C03_window_nonempty (fun _ _ => [])). Qed.
Print Assumptions C03_window_nonempty.

(* the one-step law behind it: a validity start moves to the previous observation timestamp exactly when the
   previous outcome was reportable for the channel (judged against its OWN definitions), else it is kept *)
Theorem C03_va_step : forall h cf e c v,
  valid_event h cf e -> ~ promotion e -> ~ voted_out cf e c ->
  o_va (ev_prev e) !! c = Some v ->
  o_va (ev_next e) !! c = Some (trunc_va (c_pver cf) (if reportable cf (ev_prev e) c then o_ts (ev_prev e) else v)).
Proof. exact va_step. Qed.

(* "for every accepted configuration": whatever NewReportingPlugin accepts (onchain + offchain config bytes, incl. the
   documented fallback to the zero configuration for undecodable offchain bytes) satisfies cfg_accepted *)
Theorem C03_factory_configs_are_accepted : forall f onchain offchain cf,
  plugin_factory_cfg f onchain offchain = Ok cf -> cfg_accepted cf.
Proof. exact FactoryProofs.factory_configs_are_accepted. Qed.
Print Assumptions C03_factory_configs_are_accepted.

(* ---- on the wire ----
   BytesHistory: a byte-level event is one successful call of Plugin.Outcome — observation bytes and previous-outcome
   bytes in, outcome bytes out (PluginOutcomeBytes.plugin_outcome_bytes, compared byte for byte with the implementation
   on every small round of the `history` projection); events are linked by "the bytes returned are the bytes handed to the
   next round".  Decoding everything maps such a history to a linked history of struct-level events, so the chain
   theorem (and with it every theorem stated over valid_event / linked) holds of the plugin as it exists on the wire. *)
Theorem C03_wire_history_abstracts : forall h check cf es,
  BytesHistory.check_typed check -> Forall (BytesHistory.bvalid h check cf) es -> BytesHistory.blinked es ->
  Forall (valid_event h cf) (map (BytesHistory.abs_event check cf) es) /\ linked (map (BytesHistory.abs_event check cf) es).
Proof. exact BytesHistory.abs_history. Qed.
Print Assumptions C03_wire_history_abstracts.

Theorem C03_chain_on_the_wire : forall h check cf bj bmid bk c rj rk,
  cfg_accepted cf -> BytesHistory.check_typed check ->
  Forall (BytesHistory.bvalid h check cf) (bj :: bmid ++ [bk]) -> BytesHistory.blinked (bj :: bmid ++ [bk]) ->
  report_of cf (BytesHistory.bv_seq bj) (BytesHistory.dec_or_initial cf (BytesHistory.bv_next bj)) c rj ->
  report_of cf (BytesHistory.bv_seq bk) (BytesHistory.dec_or_initial cf (BytesHistory.bv_next bk)) c rk ->
  (forall e, In e bmid -> reportable cf (BytesHistory.dec_or_initial cf (BytesHistory.bv_next e)) c = false) ->
  (forall e, In e (bmid ++ [bk]) -> ~ promotion (BytesHistory.abs_event check cf e) /\ ~ voted_out cf (BytesHistory.abs_event check cf e) c) ->
  r_va rk = trunc_va (c_pver cf) (r_ts rj) /\
  r_va rk < r_ts rk /\
  (c_pver cf = 0 \/ is_seconds_resolution (cd_fmt (r_def rk)) = true -> r_va rk / ns_per_s < r_ts rk / ns_per_s).
Proof. exact BytesHistory.chain_on_the_wire. Qed.
Print Assumptions C03_chain_on_the_wire.

(* non-vacuity on the wire (props/NvWire.v): rounds 3, 4, 5 of the concrete history as bytes — three valid linked byte-level
   events, channel 7 reports from the first and the third outcome bytes, not from the second *)
Example C03_nv_wire :
  BytesHistory.check_typed NvWire.w_check /\
  Forall (BytesHistory.bvalid nv_h NvWire.w_check nv_cf) (NvWire.w_e3 :: [NvWire.w_e4] ++ [NvWire.w_e5]) /\
  BytesHistory.blinked (NvWire.w_e3 :: [NvWire.w_e4] ++ [NvWire.w_e5]) /\
  (exists rj, report_of nv_cf 3 (BytesHistory.dec_or_initial nv_cf (BytesHistory.bv_next NvWire.w_e3)) 7 rj) /\
  (exists rk, report_of nv_cf 5 (BytesHistory.dec_or_initial nv_cf (BytesHistory.bv_next NvWire.w_e5)) 7 rk) /\
  reportable nv_cf (BytesHistory.dec_or_initial nv_cf (BytesHistory.bv_next NvWire.w_e4)) 7 = false.
Proof. exact NvWire.w_history. Qed.

(* non-vacuity: in the concrete history channel 7 reports in round 3, not in round 4 (same second), again in 5 *)
Definition nv_e (seq : Z) aos prev next := {| ev_seq := seq; ev_aos := aos; ev_prev := prev; ev_next := next |}.
Example C03_nv :
  exists r3 r5,
    cfg_accepted nv_cf /\
    Forall (valid_event nv_h nv_cf) (nv_e 3 a3 p2 p3 :: [nv_e 4 a4 p3 p4] ++ [nv_e 5 a5 p4 p5]) /\
    linked (nv_e 3 a3 p2 p3 :: [nv_e 4 a4 p3 p4] ++ [nv_e 5 a5 p4 p5]) /\
    report_of nv_cf 3 p3 7 r3 /\ report_of nv_cf 5 p5 7 r5 /\
    reportable nv_cf p4 7 = false /\ r_va r5 = r_ts r3 /\ r_ts r3 = 12 * s + 5.
Proof.
  exists (hd {| r_chan := 0; r_va := 0; r_ts := 0; r_values := []; r_specimen := false; r_def := nv_def |} (snd (reports_of nv_cf 3 p3))),
         (hd {| r_chan := 0; r_va := 0; r_ts := 0; r_values := []; r_specimen := false; r_def := nv_def |} (snd (reports_of nv_cf 5 p5))).
  split; [right; split; [reflexivity|simpl; lia]|].
  split. { repeat constructor; simpl; try lia; vm_compute; reflexivity. }
  split. { simpl. repeat split; reflexivity. }
  split. { split; [vm_compute; left|vm_compute; reflexivity]. }
  split. { split; [vm_compute; left|vm_compute; reflexivity]. }
  vm_compute. repeat split; reflexivity.
Qed.
