(* C19 — work per round is bounded by input size. Statements only; proofs in proofs/CostProofs.v.
   These are theorems about cost MODELS (bytes copied / digits materialised); the models are tied to the code by
   measurement (projection `cost`), which is why this property is labelled partial. *)
From DS Require Import Base Decimal Wire Cost CostProofs WireWork.

(* on the wire model itself (Wire.parse_fields, the parser every modelled decoder uses): the embedded pieces of a
   message are disjoint pieces of it, so parsing a message and recursively every embedded message down to nesting depth
   d touches at most (d + 1) times the input; the observation schema has depth 6 once the D7 guard bounds the nesting *)
Theorem C19_embedded_pieces_disjoint : forall bs fs, parse_fields bs = Some fs -> (fields_len fs <= length bs)%nat.
Proof. exact parse_fields_total. Qed.
Theorem C19_decode_work_linear : forall d bs, (work d bs <= (d + 1) * length bs)%nat.
Proof. exact work_linear. Qed.
Print Assumptions C19_decode_work_linear.

(* decoding nested timestamped values with the depth guard (D7 repaired): at most 4 copies of the input, at any depth *)
Theorem C19_decode_cost_linear : forall t, (cost_guarded t <= 4 * nsize t)%nat.
Proof. exact cost_guarded_linear. Qed.
Print Assumptions C19_decode_cost_linear.
(* without the guard (pinned tree) the cost is quadratic: no linear bound holds *)
Theorem C19_decode_unguarded_quadratic_refuted : forall B : nat, exists t, (cost_unguarded t > B * nsize t)%nat.
Proof. exact cost_unguarded_quadratic_refuted. Qed.
Print Assumptions C19_decode_unguarded_quadratic_refuted.
Theorem C19_validate_cost_linear : forall r u s v, (validate_cost r u s v <= r + u + s + v)%nat.
Proof. exact validate_cost_linear. Qed.
Print Assumptions C19_validate_cost_linear.
(* F2 (known finding): two well-formed decimals of 12 wire bytes whose comparison materialises more digits than any bound *)
Theorem C19_cost_unbounded_refuted : forall B : Z, exists a b : dec,
  dec_wire_size a + dec_wire_size b <= 12 /\ dec_wf a = true /\ dec_wf b = true /\ (B < 2 ^ 31 - 1 -> cmp_cost a b > B).
Proof. exact cost_unbounded_refuted. Qed.
Print Assumptions C19_cost_unbounded_refuted.

Example C19_nv : (cost_guarded (chain 1000 10 6) <= 4 * nsize (chain 1000 10 6))%nat /\
  Z.of_nat (cost_unguarded (chain 1000 10 6)) = 5011006 /\ Z.of_nat (nsize (chain 1000 10 6)) = 10006.
Proof. split; [apply C19_decode_cost_linear|]. split; vm_compute; reflexivity. Qed.
