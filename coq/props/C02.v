(* C02 — LLO numeric aggregates and the outcome timestamp stay within the honest range.
   Statements only; proofs are `exact` into coq/proofs.  Values are tagged (value, honest?) — the
   aggregators are applied to `map fst` and never see the tag.  "Between" is the numeric order
   dle on decimals (Go's Cmp is only *compatible* with it: C02_cmp_compatible). *)
From DS Require Import Base Decimal StreamValue Sort Aggregators.
From DS Require Import RankMedian DecimalProofs AggregatorProofs.
From DS Require NvE2E.
From DS Require Outcome StepTheorems OutcomeAggRange NvHistory OutcomeEndToEnd ObservationCodec PluginOutcomeBytes OutcomeCodec ReportsNoPanic.
From stdpp Require gmap.

(* numeric order is a total preorder; Go's Cmp agrees with it on numerically different values *)
Theorem C02_numeric_order : (forall a, dle a a) /\ (forall a b c, dle a b -> dle b c -> dle a c) /\ (forall a b, dle a b \/ dle b a).
Proof. exact (conj dle_refl (conj dle_trans dle_total)). Qed.
Theorem C02_cmp_compatible : forall a b,
  (~ dle b a -> dec_cmp a b = Lt) /\ (~ dle a b -> dec_cmp a b = Gt).
Proof. exact dec_cmp_compatible. Qed.

(* median: honest values all Decimal (T=0) or all Quote (T=1), strictly more honest than faulty present values *)
Theorem C02_median_in_honest_range : forall T (tvs : list (option sval * bool)) f r,
  (T = 0 \/ T = 1) -> honest_type T tvs -> (fpres tvs < hpres tvs)%nat ->
  median_agg (map fst tvs) f = Ok r ->
  exists d lo hi xl xh, r = SDec d /\ In (Some xl, true) tvs /\ In (Some xh, true) tvs /\
                        In lo (num_of xl) /\ In hi (num_of xh) /\ dle lo d /\ dle d hi.
Proof. exact median_in_honest_range. Qed.
Print Assumptions C02_median_in_honest_range.

(* timestamped median: value and observed-at time separately *)
Theorem C02_tsv_median_in_honest_range : forall (tvs : list (option sval * bool)) f r,
  honest_tsv tvs -> (fpres tvs < hpres tvs)%nat ->
  median_agg (map fst tvs) f = Ok r ->
  exists t d tl th dl dh t1 d1 t2 d2,
    r = STsv t (SDec d) /\
    In (Some (STsv tl d1), true) tvs /\ In (Some (STsv th d2), true) tvs /\ tl <= t <= th /\
    In (Some (STsv t1 (SDec dl)), true) tvs /\ In (Some (STsv t2 (SDec dh)), true) tvs /\
    dle dl d /\ dle d dh.
Proof. exact tsv_median_in_honest_range. Qed.
Print Assumptions C02_tsv_median_in_honest_range.

(* quote aggregate: each component within the honest range of that component, and bid <= benchmark <= ask *)
Theorem C02_quote_in_honest_range_and_ordered : forall (tvs : list (option sval * bool)) f r,
  honest_quote tvs -> (fpres tvs < hpres tvs)%nat ->
  quote_agg (map fst tvs) f = Ok r ->
  exists bid bm ask, r = SQuote bid bm ask /\
    dle bid bm /\ dle bm ask /\
    (exists l h, In (Some l, true) tvs /\ In (Some h, true) tvs /\
                 (exists a b c, l = SQuote a b c /\ dle a bid) /\ (exists a b c, h = SQuote a b c /\ dle bid a)) /\
    (exists l h, In (Some l, true) tvs /\ In (Some h, true) tvs /\
                 (exists a b c, l = SQuote a b c /\ dle b bm) /\ (exists a b c, h = SQuote a b c /\ dle bm b)) /\
    (exists l h, In (Some l, true) tvs /\ In (Some h, true) tvs /\
                 (exists a b c, l = SQuote a b c /\ dle c ask) /\ (exists a b c, h = SQuote a b c /\ dle ask c)).
Proof. exact quote_in_honest_range_and_ordered. Qed.
Print Assumptions C02_quote_in_honest_range_and_ordered.

(* at most f present values: no fresh aggregate *)
Theorem C02_no_value_at_most_f : forall vs f, (n_present vs <= f)%nat ->
  is_err (median_agg vs f) = true /\ quote_agg vs f = Err ETooFew.
Proof. intros vs f H. exact (conj (median_agg_too_few vs f H) (quote_too_few vs f H)). Qed.
Print Assumptions C02_no_value_at_most_f.

(* the outcome's observation timestamp *)
Theorem C02_median_ts_in_honest_range : forall (tts : list (Z * bool)) t,
  (faulty_count tts < honest_count tts)%nat ->
  median_ts (map fst tts) = Ok t ->
  exists lo hi, In (lo, true) tts /\ In (hi, true) tts /\ lo <= t <= hi.
Proof. exact median_ts_in_honest_range. Qed.
Print Assumptions C02_median_ts_in_honest_range.

(* ... and at the level of Plugin.Outcome: the timestamps of the observations the outcome function accepts
   (accepted_ts: decodable, not discarded for a forged attestation), tagged honest/faulty *)
Theorem C02_outcome_timestamp_in_honest_range : forall h cf seq prev (taos : list (option Outcome.observation * bool)) next,
  1 < seq -> Outcome.outcome_step h cf seq prev (map fst taos) = Ok next ->
  (faulty_count (StepTheorems.accepted_ts taos) < honest_count (StepTheorems.accepted_ts taos))%nat ->
  exists lo hi, In (lo, true) (StepTheorems.accepted_ts taos) /\ In (hi, true) (StepTheorems.accepted_ts taos) /\
                lo <= Outcome.o_ts next <= hi.
Proof. exact StepTheorems.outcome_timestamp_in_honest_range. Qed.
Print Assumptions C02_outcome_timestamp_in_honest_range.

(* the same for the values: a Decimal the new outcome holds for a (stream, median) pair lies between two values that
   correct observers of this round reported for that stream (accepted_vals: the stream's values in the accepted
   observations, tagged honest/faulty), and a Quote held for a (stream, quote) pair is ordered with its benchmark in the
   correct observers' range *)
Theorem C02_outcome_median_in_honest_range : forall h cf seq prev (taos : list (option Outcome.observation * bool)) next sid d T,
  1 < seq -> Outcome.outcome_step h cf seq prev (map fst taos) = Ok next ->
  base.lookup (sid, 1) (Outcome.o_aggs next) = Some (SDec d) ->
  (T = 0 \/ T = 1) -> honest_type T (OutcomeAggRange.accepted_vals taos sid) ->
  (fpres (OutcomeAggRange.accepted_vals taos sid) < hpres (OutcomeAggRange.accepted_vals taos sid))%nat ->
  exists lo hi xl xh, In (Some xl, true) (OutcomeAggRange.accepted_vals taos sid) /\
                      In (Some xh, true) (OutcomeAggRange.accepted_vals taos sid) /\
                      In lo (num_of xl) /\ In hi (num_of xh) /\ dle lo d /\ dle d hi.
Proof. exact OutcomeAggRange.outcome_median_in_honest_range. Qed.
Print Assumptions C02_outcome_median_in_honest_range.

Theorem C02_outcome_quote_in_honest_range : forall h cf seq prev (taos : list (option Outcome.observation * bool)) next sid bid bm ask,
  1 < seq -> Outcome.outcome_step h cf seq prev (map fst taos) = Ok next ->
  base.lookup (sid, 3) (Outcome.o_aggs next) = Some (SQuote bid bm ask) ->
  honest_quote (OutcomeAggRange.accepted_vals taos sid) ->
  (fpres (OutcomeAggRange.accepted_vals taos sid) < hpres (OutcomeAggRange.accepted_vals taos sid))%nat ->
  dle bid bm /\ dle bm ask /\
  (exists l hh, In (Some l, true) (OutcomeAggRange.accepted_vals taos sid) /\ In (Some hh, true) (OutcomeAggRange.accepted_vals taos sid) /\
                (exists a b c, l = SQuote a b c /\ dle b bm) /\ (exists a b c, hh = SQuote a b c /\ dle bm b)).
Proof. exact OutcomeAggRange.outcome_quote_in_honest_range. Qed.
Print Assumptions C02_outcome_quote_in_honest_range.

(* timestamped median at the level of Plugin.Outcome: the value held is the previous outcome's (kept) or fresh and then in
   the correct observers' range, value and observed-at time *)
Theorem C02_outcome_tsv_median_in_honest_range : forall h cf seq prev (taos : list (option Outcome.observation * bool)) next sid t d,
  1 < seq -> Outcome.outcome_step h cf seq prev (map fst taos) = Ok next ->
  base.lookup (sid, 1) (Outcome.o_aggs next) = Some (STsv t (SDec d)) ->
  honest_tsv (OutcomeAggRange.accepted_vals taos sid) ->
  (fpres (OutcomeAggRange.accepted_vals taos sid) < hpres (OutcomeAggRange.accepted_vals taos sid))%nat ->
  base.lookup (sid, 1) (Outcome.o_aggs prev) = Some (STsv t (SDec d)) \/
  exists tl th dl dh t1 d1 t2 d2,
    In (Some (STsv tl d1), true) (OutcomeAggRange.accepted_vals taos sid) /\ In (Some (STsv th d2), true) (OutcomeAggRange.accepted_vals taos sid) /\
    tl <= t <= th /\
    In (Some (STsv t1 (SDec dl)), true) (OutcomeAggRange.accepted_vals taos sid) /\ In (Some (STsv t2 (SDec dh)), true) (OutcomeAggRange.accepted_vals taos sid) /\
    dle dl d /\ dle d dh.
Proof. exact OutcomeAggRange.outcome_tsv_median_in_honest_range. Qed.
Print Assumptions C02_outcome_tsv_median_in_honest_range.

Definition C02_nv_tsv_taos : list (option Outcome.observation * bool) := map (fun o => (o, true)) NvHistory.a3.
Example C02_nv_tsv :
  match Outcome.outcome_step NvHistory.nv_h NvHistory.nv_cf 3 NvHistory.p2 (map fst C02_nv_tsv_taos) with
  | Ok next => base.lookup (3, 1) (Outcome.o_aggs next) = Some (NvHistory.nv_tsv (11 * NvHistory.s) 100)
  | _ => False end /\
  honest_tsv (OutcomeAggRange.accepted_vals C02_nv_tsv_taos 3) /\
  (fpres (OutcomeAggRange.accepted_vals C02_nv_tsv_taos 3) < hpres (OutcomeAggRange.accepted_vals C02_nv_tsv_taos 3))%nat.
Proof.
  split; [vm_compute; reflexivity|]. split; [|vm_compute; lia].
  intros x H. vm_compute in H. destruct H as [H|[H|[H|[]]]]; inversion H; eexists; eexists; reflexivity.
Qed.

(* ---- end to end: from the correct nodes' data sources to the outcome ----
   OutcomeEndToEnd: a correct node's observation is ObservationCodec.plugin_observation (the model of Plugin.Observation,
   compared with the real function by the `observe` projection) of its inputs, marshalled by encode_observation in any
   map order; the other senders send arbitrary bytes; `tagged` decodes every message as Plugin.Outcome does
   (PluginOutcomeBytes.obs_of_bytes, compared with the real decoding on every round of the `history` projection). *)
Theorem C02_llo_median_between_data_sources :
  forall h check codec_ok cf seq prev_bytes (ss : list (OutcomeEndToEnd.lsender)) prev next sid d T,
  ReportsNoPanic.bok prev_bytes -> OutcomeEndToEnd.lsenders_ok codec_ok cf seq prev_bytes ss -> 1 < seq ->
  Outcome.outcome_step h cf seq prev (map fst (OutcomeEndToEnd.tagged check codec_ok cf seq prev_bytes ss)) = Ok next ->
  base.lookup (sid, 1) (Outcome.o_aggs next) = Some (SDec d) ->
  (T = 0 \/ T = 1) -> honest_type T (OutcomeAggRange.accepted_vals (OutcomeEndToEnd.tagged check codec_ok cf seq prev_bytes ss) sid) ->
  (fpres (OutcomeAggRange.accepted_vals (OutcomeEndToEnd.tagged check codec_ok cf seq prev_bytes ss) sid) <
   hpres (OutcomeAggRange.accepted_vals (OutcomeEndToEnd.tagged check codec_ok cf seq prev_bytes ss) sid))%nat ->
  exists i1 i2 x1 x2 lo hi,
    (exists rms ups vals, In (OutcomeEndToEnd.LCorrect i1 rms ups vals) ss) /\ (exists rms ups vals, In (OutcomeEndToEnd.LCorrect i2 rms ups vals) ss) /\
    base.lookup sid (OutcomeEndToEnd.oi_vals i1) = Some x1 /\ base.lookup sid (OutcomeEndToEnd.oi_vals i2) = Some x2 /\
    In lo (num_of x1) /\ In hi (num_of x2) /\ dle lo d /\ dle d hi.
Proof. exact OutcomeEndToEnd.llo_median_between_data_sources. Qed.
Print Assumptions C02_llo_median_between_data_sources.

Theorem C02_llo_quote_between_data_sources :
  forall h check codec_ok cf seq prev_bytes (ss : list (OutcomeEndToEnd.lsender)) prev next sid bid bm ask,
  ReportsNoPanic.bok prev_bytes -> OutcomeEndToEnd.lsenders_ok codec_ok cf seq prev_bytes ss -> 1 < seq ->
  Outcome.outcome_step h cf seq prev (map fst (OutcomeEndToEnd.tagged check codec_ok cf seq prev_bytes ss)) = Ok next ->
  base.lookup (sid, 3) (Outcome.o_aggs next) = Some (SQuote bid bm ask) ->
  honest_quote (OutcomeAggRange.accepted_vals (OutcomeEndToEnd.tagged check codec_ok cf seq prev_bytes ss) sid) ->
  (fpres (OutcomeAggRange.accepted_vals (OutcomeEndToEnd.tagged check codec_ok cf seq prev_bytes ss) sid) <
   hpres (OutcomeAggRange.accepted_vals (OutcomeEndToEnd.tagged check codec_ok cf seq prev_bytes ss) sid))%nat ->
  dle bid bm /\ dle bm ask /\
  exists i1 i2 a1 b1 c1 a2 b2 c2,
    (exists rms ups vals, In (OutcomeEndToEnd.LCorrect i1 rms ups vals) ss) /\ (exists rms ups vals, In (OutcomeEndToEnd.LCorrect i2 rms ups vals) ss) /\
    base.lookup sid (OutcomeEndToEnd.oi_vals i1) = Some (SQuote a1 b1 c1) /\ base.lookup sid (OutcomeEndToEnd.oi_vals i2) = Some (SQuote a2 b2 c2) /\
    dle b1 bm /\ dle bm b2.
Proof. exact OutcomeEndToEnd.llo_quote_between_data_sources. Qed.
Print Assumptions C02_llo_quote_between_data_sources.

Theorem C02_llo_tsv_median_between_data_sources :
  forall h check codec_ok cf seq prev_bytes (ss : list (OutcomeEndToEnd.lsender)) prev next sid t d,
  ReportsNoPanic.bok prev_bytes -> OutcomeEndToEnd.lsenders_ok codec_ok cf seq prev_bytes ss -> 1 < seq ->
  Outcome.outcome_step h cf seq prev (map fst (OutcomeEndToEnd.tagged check codec_ok cf seq prev_bytes ss)) = Ok next ->
  base.lookup (sid, 1) (Outcome.o_aggs next) = Some (STsv t (SDec d)) ->
  honest_tsv (OutcomeAggRange.accepted_vals (OutcomeEndToEnd.tagged check codec_ok cf seq prev_bytes ss) sid) ->
  (fpres (OutcomeAggRange.accepted_vals (OutcomeEndToEnd.tagged check codec_ok cf seq prev_bytes ss) sid) <
   hpres (OutcomeAggRange.accepted_vals (OutcomeEndToEnd.tagged check codec_ok cf seq prev_bytes ss) sid))%nat ->
  base.lookup (sid, 1) (Outcome.o_aggs prev) = Some (STsv t (SDec d)) \/
  exists i1 i2 i3 i4 tl th dl dh x1 x2 t1 t2,
    (exists rms ups vals, In (OutcomeEndToEnd.LCorrect i1 rms ups vals) ss) /\ (exists rms ups vals, In (OutcomeEndToEnd.LCorrect i2 rms ups vals) ss) /\
    (exists rms ups vals, In (OutcomeEndToEnd.LCorrect i3 rms ups vals) ss) /\ (exists rms ups vals, In (OutcomeEndToEnd.LCorrect i4 rms ups vals) ss) /\
    base.lookup sid (OutcomeEndToEnd.oi_vals i1) = Some (STsv tl x1) /\ base.lookup sid (OutcomeEndToEnd.oi_vals i2) = Some (STsv th x2) /\ tl <= t <= th /\
    base.lookup sid (OutcomeEndToEnd.oi_vals i3) = Some (STsv t1 (SDec dl)) /\ base.lookup sid (OutcomeEndToEnd.oi_vals i4) = Some (STsv t2 (SDec dh)) /\
    dle dl d /\ dle d dh.
Proof. exact OutcomeEndToEnd.llo_tsv_median_between_data_sources. Qed.
Print Assumptions C02_llo_tsv_median_between_data_sources.

Theorem C02_llo_timestamp_between_clocks :
  forall h check codec_ok cf seq prev_bytes (ss : list (OutcomeEndToEnd.lsender)) prev next,
  ReportsNoPanic.bok prev_bytes -> OutcomeEndToEnd.lsenders_ok codec_ok cf seq prev_bytes ss -> 1 < seq ->
  Outcome.outcome_step h cf seq prev (map fst (OutcomeEndToEnd.tagged check codec_ok cf seq prev_bytes ss)) = Ok next ->
  (faulty_count (StepTheorems.accepted_ts (OutcomeEndToEnd.tagged check codec_ok cf seq prev_bytes ss)) <
   honest_count (StepTheorems.accepted_ts (OutcomeEndToEnd.tagged check codec_ok cf seq prev_bytes ss)))%nat ->
  exists i1 i2, (exists rms ups vals, In (OutcomeEndToEnd.LCorrect i1 rms ups vals) ss) /\
                (exists rms ups vals, In (OutcomeEndToEnd.LCorrect i2 rms ups vals) ss) /\
                OutcomeEndToEnd.oi_now i1 <= Outcome.o_ts next <= OutcomeEndToEnd.oi_now i2.
Proof. exact OutcomeEndToEnd.llo_timestamp_between_clocks. Qed.
Print Assumptions C02_llo_timestamp_between_clocks.

(* non-vacuity, end to end (props/NvE2E.v): previous outcome bytes, three correct nodes whose data sources return 10, 12,
   11 for stream 3 and one sender claiming 10^30: every hypothesis of the two theorems above holds and the outcome
   commits 12 *)
Example C02_nv_end_to_end :
  ReportsNoPanic.bok NvE2E.e_prev_bytes /\
  OutcomeEndToEnd.lsenders_ok (fun _ => true) NvHistory.nv_cf 3 NvE2E.e_prev_bytes NvE2E.e_ss /\
  match Outcome.outcome_step NvHistory.nv_h NvHistory.nv_cf 3 NvHistory.p2 (map fst NvE2E.e_tagged) with
  | Ok next => base.lookup (3, 1) (Outcome.o_aggs next) = Some (SDec (mkdec 12 0))
  | _ => False end /\
  honest_type 0 (OutcomeAggRange.accepted_vals NvE2E.e_tagged 3) /\
  (fpres (OutcomeAggRange.accepted_vals NvE2E.e_tagged 3) < hpres (OutcomeAggRange.accepted_vals NvE2E.e_tagged 3))%nat /\
  (faulty_count (StepTheorems.accepted_ts NvE2E.e_tagged) < honest_count (StepTheorems.accepted_ts NvE2E.e_tagged))%nat.
Proof. exact NvE2E.e_round. Qed.

(* non-vacuity at the outcome level: predecessor NvHistory.p2 defines channel 7 over (stream 3, median); three correct
   observers report 10, 12, 11 and a faulty one 10^30; the new outcome holds 12 for (3, median) *)
Definition C02_nv_ob (v : sval) : option Outcome.observation :=
  Some {| Outcome.ob_att := Outcome.NoAttest; Outcome.ob_retire := false; Outcome.ob_ts := 12 * NvHistory.s;
          Outcome.ob_removes := []; Outcome.ob_updates := base.empty; Outcome.ob_values := base.singletonM 3 v |}.
Definition C02_nv_taos : list (option Outcome.observation * bool) :=
  [ (C02_nv_ob (SDec (mkdec 10 0)), true); (C02_nv_ob (SDec (mkdec 1 30)), false);
    (C02_nv_ob (SDec (mkdec 12 0)), true); (C02_nv_ob (SDec (mkdec 11 0)), true) ].
Example C02_nv_outcome :
  match Outcome.outcome_step NvHistory.nv_h NvHistory.nv_cf 3 NvHistory.p2 (map fst C02_nv_taos) with
  | Ok next => base.lookup (3, 1) (Outcome.o_aggs next) = Some (SDec (mkdec 12 0))
  | _ => False end /\
  honest_type 0 (OutcomeAggRange.accepted_vals C02_nv_taos 3) /\
  (fpres (OutcomeAggRange.accepted_vals C02_nv_taos 3) < hpres (OutcomeAggRange.accepted_vals C02_nv_taos 3))%nat.
Proof.
  split; [vm_compute; reflexivity|]. split; [|vm_compute; lia].
  intros x H. vm_compute in H. destruct H as [H|[H|[H|[H|[]]]]]; inversion H; reflexivity.
Qed.

(* non-vacuity: f = 1, honest {10.0, 1e1, 12}, faulty {Quote(-5, 10^30, 10^31)} *)
Definition C02_nv_vals : list (option sval * bool) :=
  [ (Some (SDec (mkdec 100 (-1))), true); (Some (SQuote (mkdec (-5) 0) (mkdec 1 30) (mkdec 1 31)), false);
    (Some (SDec (mkdec 1 1)), true); (Some (SDec (mkdec 12 0)), true) ].
Example C02_nv_median :
  honest_type 0 C02_nv_vals /\ (fpres C02_nv_vals < hpres C02_nv_vals)%nat /\
  median_agg (map fst C02_nv_vals) 1 = Ok (SDec (mkdec 12 0)).
Proof.
  split; [|split; [vm_compute; lia|vm_compute; reflexivity]].
  intros x [H|[H|[H|[H|[]]]]]; inversion H; reflexivity.
Qed.
