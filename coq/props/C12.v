(* C12 — EVM report codecs are faithful and well-typed, or they fail.
   Only statements; every proof is `exact <lemma>` into proofs/EvmCodecProofs.v.
   The conclusions are the boolean layout readers of theories/EvmSpec.v (independent of the encoders), which the
   correspondence check also evaluates on the bytes returned by the Go codecs. *)
From DS Require Import Base RepoConstants Decimal StreamValue Outcome EvmInt EvmCodecs EvmSpec EvmIntProofs EvmCodecProofs.

(* the type list the readers and encoders accept is the one in /repo's typeRegex *)
Example C12_gen_widths_complete : evm_type_widths = solidity_widths.
Proof. reflexivity. Qed.

(* fee = round-half-up(baseUSDFee / price * 1e18), zero when either is missing or non-positive; the value is unique *)
Theorem C12_fee_formula : forall price base f, calculate_fee price base = Ok f -> fee_ok price base f = true.
Proof. exact calculate_fee_ok. Qed.
Print Assumptions C12_fee_formula.
Theorem C12_fee_unique : forall price base f1 f2, fee_ok price base f1 = true -> fee_ok price base f2 = true -> f1 = f2.
Proof. exact fee_ok_unique. Qed.
Print Assumptions C12_fee_unique.

(* value = trunc(value x multiplier); unique *)
Theorem C12_value_truncated : forall d m x, apply_mult d m = Ok x -> trunc_ok d m x = true.
Proof. exact apply_mult_trunc. Qed.
Print Assumptions C12_value_truncated.
Theorem C12_trunc_unique : forall d m x1 x2, trunc_ok d m x1 = true -> trunc_ok d m x2 = true -> x1 = x2.
Proof. exact trunc_ok_unique. Qed.
Print Assumptions C12_trunc_unique.

(* premium legacy: success means the nine words read back as feed id, validFrom = floor(validAfter/1s)+1,
   timestamp, fees, expiresAt = timestamp + window, trunc(price x multiplier) as int192 — all within their types.
   Hypothesis H_F3 (timestamp + window <= 2^32-1) is exactly the complement of known finding F3. *)
Theorem C12_legacy_encode_sound : forall o r bs,
  report_wf r -> length (lo_feed o) = 32%nat -> 0 <= lo_window o ->
  r_ts r / 10 ^ 9 + lo_window o <= max_uint32 ->
  legacy_encode (Some o) r = Ok bs -> legacy_spec o r bs = true.
Proof. exact legacy_encode_sound. Qed.
Print Assumptions C12_legacy_encode_sound.

(* ABI-encode-unpacked: six header words, then one padded word per single encoder (two for a timestamped value) *)
Theorem C12_unpacked_encode_sound : forall o r bs,
  report_wf r -> length (uo_feed o) = 32%nat -> 0 <= uo_window o ->
  r_ts r / 10 ^ 9 + uo_window o <= max_uint32 ->
  unpacked_encode (Some o) r = Ok bs -> unpacked_spec o r bs = true.
Proof. exact (unpacked_encode_sound C12_gen_widths_complete). Qed.
Print Assumptions C12_unpacked_encode_sound.

(* streamlined: feed id or (format, channel id), validAfter in nanoseconds, packed values *)
Theorem C12_streamlined_encode_sound : forall o fmt r bs,
  0 <= fmt < 2 ^ 32 -> 0 <= r_chan r < 2 ^ 32 -> 0 <= r_va r < 2 ^ 64 ->
  match so_feed o with Some f => length f = 32%nat | None => True end ->
  streamlined_encode (Some o) fmt r = Ok bs -> streamlined_spec o fmt r bs = true.
Proof. exact (streamlined_encode_sound C12_gen_widths_complete). Qed.
Print Assumptions C12_streamlined_encode_sound.

(* a field that does not fit its declared type: encoding cannot succeed (time fields, fees, prices) *)
Theorem C12_legacy_fails_when_unfit : forall o r bs,
  report_wf r -> length (lo_feed o) = 32%nat -> 0 <= lo_window o -> r_ts r / 10 ^ 9 + lo_window o <= max_uint32 ->
  legacy_encode (Some o) r = Ok bs ->
  time_unfit (lo_window o) r = false /\
  (forall v0 v1 v2 p f, r_values r = [v0; v1; v2] -> (price_of v0 = Some p \/ price_of v1 = Some p) ->
     fee_ok p (lo_fee o) f = true -> u192_okb f = true) /\
  (forall v0 v1 bid bm ask d x, r_values r = [v0; v1; Some (SQuote bid bm ask)] -> In d [bid; bm; ask] ->
     trunc_ok d (match lo_mult o with Some m => m | None => 1 end) x = true -> i192_okb x = true).
Proof. exact legacy_unfit_never_ok. Qed.
Print Assumptions C12_legacy_fails_when_unfit.

(* formats that cannot carry a specimen marker refuse specimen reports *)
Theorem C12_specimen_refused : forall o1 o2 r, r_specimen r = true ->
  legacy_encode o1 r = Err EUnsupported /\ unpacked_encode o2 r = Err EUnsupported.
Proof. exact specimen_refused. Qed.
Print Assumptions C12_specimen_refused.

(* a panic of the premium-legacy encoder can only come from the fee division, in the F4 input region *)
Theorem C12_legacy_panic_only_F4 : forall o r s, values_wf r = true ->
  legacy_encode o r = Panic s -> exists o', o = Some o' /\ f4_region (lo_fee o') r = true.
Proof. exact legacy_panic_only_F4. Qed.
Print Assumptions C12_legacy_panic_only_F4.

(* ---- the full statement is false of the faithful model: the two recorded findings ---- *)
(* F3: expiresAt wraps (witness: ts 4294967294 s + window 4294967295 -> 4294967293) *)
Theorem C12_expiry_wraps_refuted :
  exists o r bs, legacy_verify (Some o) 3 = true /\ legacy_encode (Some o) r = Ok bs /\
    legacy_spec o r bs = false /\
    be_value (firstn 32 (skipn 160 bs)) = 4294967293 /\ r_ts r / 10 ^ 9 + lo_window o = 8589934589.
Proof. exact expiry_wraps_refuted. Qed.
Print Assumptions C12_expiry_wraps_refuted.
(* F4: verified options with baseUSDFee 1e2147483647 make Encode panic *)
Theorem C12_fee_panics_refuted :
  exists o r s, legacy_verify (Some o) 3 = true /\ values_wf r = true /\ legacy_encode (Some o) r = Panic s.
Proof. exact fee_panics_refuted. Qed.
Print Assumptions C12_fee_panics_refuted.

(* ---- non-vacuity: concrete verified options and reports that encode ---- *)
Definition nv_feed : bytes := repeat 17 32.
Definition nv_report (vs : list (option sval)) : report :=
  {| r_chan := 7; r_va := 1700000000500000000; r_ts := 1700000001900000000; r_values := vs; r_specimen := false;
     r_def := {| cd_fmt := 1; cd_streams := []; cd_opts := [] |} |}.
Definition with_ok (r : res bytes) (p : bytes -> bool) : bool := match r with Ok bs => p bs | _ => false end.
Example C12_nv_legacy :
  let o := {| lo_fee := mkdec 15 (-1); lo_window := 3600; lo_feed := nv_feed; lo_mult := Some (10 ^ 18) |} in
  let r := nv_report [Some (SDec (mkdec 3000 0)); Some (SDec (mkdec 7 0)); Some (SQuote (mkdec (-15) (-1)) (mkdec 25 (-1)) (mkdec 3 0))] in
  legacy_verify (Some o) 3 = true /\
  with_ok (legacy_encode (Some o) r) (fun bs =>
    (length bs =? 288)%nat && legacy_spec o r bs &&
    (be_value (firstn 32 (skipn 96 bs)) =? 500000000000000) &&             (* 1.5 / 3000 * 1e18 *)
    (be_value (firstn 32 (skipn 128 bs)) =? 214285714285714286) &&         (* 1.5 / 7 * 1e18, rounded half up *)
    (twos_read (firstn 32 (skipn 224 bs)) =? - 1500000000000000000)) = true.
Proof. split; vm_compute; reflexivity. Qed.
Example C12_nv_unpacked :
  let o := {| uo_fee := mkdec 1 0; uo_window := 60; uo_feed := nv_feed;
              uo_abi := [[{| e_type := str_bytes "int192"; e_mult := Some 100 |}];
                         [{| e_type := str_bytes "uint64"; e_mult := None |}; {| e_type := str_bytes "int24"; e_mult := Some (-1000) |}]] |} in
  let r := nv_report [Some (SDec (mkdec 2 0)); None; Some (SDec (mkdec (-12345) (-3))); Some (STsv 99 (SDec (mkdec 8388 (-3))))] in
  unpacked_verify (Some o) 4 = true /\
  with_ok (unpacked_encode (Some o) r) (fun bs =>
    (length bs =? 288)%nat && unpacked_spec o r bs &&
    (twos_read (firstn 32 (skipn 192 bs)) =? - 1234) && (twos_read (firstn 32 (skipn 256 bs)) =? - 8388)) = true.
Proof. split; vm_compute; reflexivity. Qed.
Example C12_nv_streamlined :
  let o := {| so_feed := None; so_abi := [[{| e_type := str_bytes "uint32"; e_mult := None |}];
                                           [{| e_type := str_bytes "bytes0"; e_mult := None |}; {| e_type := str_bytes "int16"; e_mult := None |}]] |} in
  let r := nv_report [Some (SDec (mkdec 4294967295 0)); Some (STsv 5 (SDec (mkdec (-2) 0)))] in
  streamlined_verify (Some o) 2 = true /\
  with_ok (streamlined_encode (Some o) 6 r) (fun bs => (length bs =? 22)%nat && streamlined_spec o 6 r bs) = true.
Proof. split; vm_compute; reflexivity. Qed.
Example C12_nv_unfit :
  let o := {| lo_fee := mkdec 1 0; lo_window := 1; lo_feed := nv_feed; lo_mult := None |} in
  legacy_encode (Some o) (nv_report [None; None; Some (SQuote (mkdec 1 0) (mkdec (2 ^ 191) 0) (mkdec 1 0))]) = Err EOutOfRange /\
  legacy_encode (Some o) (nv_report [None; None; Some (SQuote (mkdec 1 0) (mkdec (2 ^ 191 - 1) 0) (mkdec 1 0))]) <> Err EOutOfRange.
Proof. cbv zeta. split; vm_compute; [reflexivity|discriminate]. Qed.
