(* C20 — mTLS admits exactly the allow-listed Ed25519 keys; key replacement is atomic.
   Only statements; proofs are `exact <lemma>` into proofs/LocksProofs.v. *)
From DS Require Import Base RepoConstants Locks LocksProofs.

(* the lock/access programs regenerated from rpc/mtls/mtls.go on this run obey the RWMutex discipline:
   Keys and isValidPublicKey read .keys only under RLock, Replace copies its argument under the argument's RLock and
   writes .keys exactly once under Lock, every lock is released, and nothing else in the file touches .keys or .mu *)
Example C20_gen_programs_well_locked : repo_programs_ok = true.
Proof. vm_compute. reflexivity. Qed.

(* a peer is accepted exactly when it presents one parsable Ed25519 certificate whose key is in the current allow-list;
   no certificate, several, another key algorithm, an unlisted key: rejected *)
Theorem C20_verify_exactly_listed : forall raw allow,
  verify_peer raw allow = true <-> exists k, raw = [CEd k] /\ In k allow.
Proof. exact verify_peer_spec. Qed.
Print Assumptions C20_verify_exactly_listed.
Theorem C20_handshake_iff_mutually_listed : forall sk ck sallow callow,
  handshake sk ck sallow callow = true <-> In ck sallow /\ In sk callow.
Proof. exact handshake_spec. Qed.
Print Assumptions C20_handshake_iff_mutually_listed.

(* any number of goroutines running well-locked programs, any schedule: a write of .keys is never concurrent with
   another goroutine's read or write of .keys *)
Theorem C20_no_data_race : forall S sched st0 ks ts i j ti tj,
  initial S st0 -> run sched st0 = Some (ks, ts) -> i <> j ->
  nth_error ts i = Some ti -> nth_error ts j = Some tj ->
  next_op ti = Some LWrite -> is_access (next_op tj) = true -> False.
Proof. exact no_data_race. Qed.
Print Assumptions C20_no_data_race.

(* every verification reads the initial list or the complete new list of some Replace - never a mixture;
   hence a key in the old and the new list is never rejected and a key in neither is never accepted *)
Theorem C20_replace_atomic : forall S sched st0 ks ts i t k b,
  initial S st0 -> run sched st0 = Some (ks, ts) -> nth_error ts i = Some t -> verdict k t = Some b ->
  ((forall s, In s S -> In k s) -> b = true) /\ ((forall s, In s S -> ~ In k s) -> b = false).
Proof. exact replace_atomic. Qed.
Print Assumptions C20_replace_atomic.

(* non-vacuity: two verifiers and one Replace built from the generated programs, one interleaving in which the
   first verifier reads the old list and the second the new one *)
Definition nv_prog (name : string) : list lop := match program name 0 with Some p => p | None => [] end.
Definition nv_old : list key := [[1]; [2]].
Definition nv_new : list key := [[2]; [3]].
Definition nv_sys : sys := (nv_old, [spawn (nv_prog "isValidPublicKey") []; spawn (nv_prog "Replace") nv_new; spawn (nv_prog "isValidPublicKey") []]).
Example C20_nv :
  initial [nv_old; nv_new; []] nv_sys /\
  (* each thread runs to completion in turn, however many operations the regenerated programs have *)
  match run (repeat 0 (length (nv_prog "isValidPublicKey")) ++ repeat 1 (length (nv_prog "Replace")) ++ repeat 2 (length (nv_prog "isValidPublicKey")))%nat nv_sys with
  | Some (ks, [a; _; b]) => ks = nv_new /\ verdict [1] a = Some true /\ verdict [1] b = Some false /\ verdict [2] a = Some true /\ verdict [2] b = Some true
  | _ => False
  end /\
  (* a schedule that would let Replace write while a reader holds the lock is not an execution *)
  run [0; 1; 1]%nat nv_sys = None.
Proof.
  split.
  - vm_compute. split; [left; reflexivity|].
    repeat (constructor; [repeat split; try reflexivity; tauto|]). constructor.
  - split; [vm_compute; repeat split; reflexivity|vm_compute; reflexivity].
Qed.
