(* NvHistory.v — a small concrete LLO history used by the non-vacuity examples of C03/C04/C05/C06/C18:
   it is run through the model by vm_compute, so the hypotheses of the theorems are met by real states. *)
From stdpp Require Import gmap.
From DS Require Import Base Decimal StreamValue Sort Aggregators RepoConstants Outcome.
Open Scope Z_scope.

Definition nv_h (c : Z) (d : chandef) : list Z := [c; cd_fmt d].
Definition nv_cf : cfg := {| c_f := 1; c_pver := 1; c_interval := 1; c_has_pred := false |}.
Definition nv_cf_s : cfg := {| c_f := 1; c_pver := 1; c_interval := 1; c_has_pred := true |}.
Definition nv_def : chandef := {| cd_fmt := 1; cd_streams := [(3, 1)]; cd_opts := [] |}.
Definition nv_tsv (t v : Z) : sval := STsv t (SDec (mkdec v 0)).
Definition nv_ob (ts : Z) (ups : gmap Z chandef) (rm : list Z) (ret : bool) (att : attest) (at_ns : Z) : option observation :=
  Some {| ob_att := att; ob_retire := ret; ob_ts := ts; ob_removes := rm; ob_updates := ups;
          ob_values := {[ 3 := nv_tsv at_ns 100 ]} |}.
Definition nv_round (ts : Z) ups rm ret att at_ns : list (option observation) :=
  [nv_ob ts ups rm ret att at_ns; nv_ob (ts + 5) ups rm ret att at_ns; nv_ob (ts + 9) ups rm ret att (at_ns + 1)].
Definition s : Z := 1000000000.
Definition get (r : res outcome) : outcome := match r with Ok o => o | _ => initial_outcome nv_cf end.

(* predecessor P: round 1 initial, 2 adds channel 7, 3..5 report / skip / report, 6 retires *)
Definition p1 := get (outcome_step nv_h nv_cf 1 (initial_outcome nv_cf) (nv_round 0 ∅ [] false NoAttest 0)).
Definition a2 := nv_round (10 * s) {[ 7 := nv_def ]} [] false NoAttest (9 * s).
Definition p2 := get (outcome_step nv_h nv_cf 2 p1 a2).
Definition a3 := nv_round (12 * s) ∅ [] false NoAttest (11 * s).
Definition p3 := get (outcome_step nv_h nv_cf 3 p2 a3).
Definition a4 := nv_round (12 * s + 500) ∅ [] false NoAttest (10 * s).
Definition p4 := get (outcome_step nv_h nv_cf 4 p3 a4).
Definition a5 := nv_round (15 * s) ∅ [] false NoAttest (14 * s).
Definition p5 := get (outcome_step nv_h nv_cf 5 p4 a5).
Definition a6 := nv_round (17 * s) ∅ [] true NoAttest (16 * s).
Definition p6 := get (outcome_step nv_h nv_cf 6 p5 a6).
Definition a7 := nv_round (19 * s) {[ 8 := nv_def ]} [7] true NoAttest (18 * s).
Definition p7 := get (outcome_step nv_h nv_cf 7 p6 a7).

(* successor S: staging, defines nothing yet; promoted by P's retirement report; defines channel 7 one round later *)
Definition s1 := get (outcome_step nv_h nv_cf_s 1 (initial_outcome nv_cf_s) (nv_round 0 ∅ [] false NoAttest 0)).
Definition b2 := nv_round (18 * s) ∅ [] false (GoodAttest (o_va p6)) (17 * s).
Definition s2 := get (outcome_step nv_h nv_cf_s 2 s1 b2).
Definition b3 := nv_round (20 * s) {[ 7 := nv_def ]} [] false NoAttest (19 * s).
Definition s3 := get (outcome_step nv_h nv_cf_s 3 s2 b3).
Definition b4 := nv_round (22 * s) ∅ [] false NoAttest (21 * s).
Definition s4 := get (outcome_step nv_h nv_cf_s 4 s3 b4).
