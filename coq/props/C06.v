(* C06 — LLO state changes need more than f votes or a verified attestation. *)
From stdpp Require Import gmap.
From DS Require Import Base Decimal StreamValue Aggregators Outcome OutcomeProofs StepTheorems NvHistory.
From DS Require OutcomeEndToEnd ReportsNoPanic NvE2E BytesHistory PluginOutcomeBytes NvWire.
Open Scope Z_scope.

(* a channel is added, replaced or removed only with more than f votes for exactly that change
   (votes are counted over the observations the outcome function accepts) *)
Theorem C06_def_change_needs_votes : forall h cf seq prev aos next c,
  1 < seq -> outcome_step h cf seq prev aos = Ok next ->
  o_defs next !! c <> o_defs prev !! c ->
  exists rr obs, accept_observations (c_has_pred cf) aos = Ok (rr, obs) /\
    o_stage prev <> Retired /\ o_stage next <> Retired /\
    ((o_defs next !! c = None /\ (c_f cf < remove_votes obs c)%nat) \/
     (exists d, o_defs next !! c = Some d /\ (c_f cf < update_votes obs c d)%nat)).
Proof. exact def_change_needs_votes. Qed.
Print Assumptions C06_def_change_needs_votes.

(* the accepted observations are observations of the list; a used attestation was carried by one of them *)
Theorem C06_accepted_are_observations : forall has_pred aos rr obs,
  accept_observations has_pred aos = Ok (rr, obs) ->
  (forall ob, ob ∈ obs -> Some ob ∈ aos) /\
  (forall va, rr = Some va -> has_pred = true /\ exists ob, Some ob ∈ aos /\ ob_att ob = GoodAttest va).
Proof. exact accept_observations_sound. Qed.

(* retirement needs more than f retire votes; promotion needs a verified attestation and a configured predecessor *)
Theorem C06_stage_change_needs_votes_or_attestation : forall h cf seq prev aos next,
  1 < seq -> outcome_step h cf seq prev aos = Ok next ->
  o_stage next <> o_stage prev ->
  exists rr obs, accept_observations (c_has_pred cf) aos = Ok (rr, obs) /\
    ((o_stage prev = Staging /\ (o_stage next = Production \/ (o_stage next = Retired /\ (c_f cf < retire_votes obs)%nat)) /\
      c_has_pred cf = true /\ exists va ob, Some ob ∈ aos /\ ob_att ob = GoodAttest va) \/
     (o_stage prev = Production /\ o_stage next = Retired /\ (c_f cf < retire_votes obs)%nat)).
Proof. exact stage_change_needs_votes_or_attestation. Qed.
Print Assumptions C06_stage_change_needs_votes_or_attestation.

(* hence at most f faulty observers cannot by themselves change the channel set or retire the instance
   (observations are tagged: true = from a correct observer, who votes for nothing here) *)
Theorem C06_f_faulty_cannot_change : forall h cf seq prev (taos : list (option observation * bool)) next,
  1 < seq -> outcome_step h cf seq prev (map fst taos) = Ok next ->
  (length (List.filter (fun p => negb (snd p)) taos) <= c_f cf)%nat ->
  (forall ob, In (Some ob, true) taos -> ob_removes ob = [] /\ ob_updates ob = ∅ /\ ob_retire ob = false) ->
  o_defs next = o_defs prev /\
  (o_stage next = o_stage prev \/ (o_stage prev = Staging /\ o_stage next = Production)).
Proof. exact f_faulty_cannot_change. Qed.
Print Assumptions C06_f_faulty_cannot_change.

Theorem C06_retired_ignores_votes : forall h cf seq prev aos next,
  1 < seq -> outcome_step h cf seq prev aos = Ok next -> o_stage prev = Retired ->
  o_stage next = Retired /\ o_defs next = o_defs prev.
Proof. exact retired_ignores_votes. Qed.
Print Assumptions C06_retired_ignores_votes.

(* end to end (OutcomeEndToEnd): senders are correct nodes — ObservationCodec.plugin_observation of their inputs, marshalled in
   any map order — or arbitrary bytes, at most f of the latter; every change of the channel set traces back to the
   channel-definitions cache of some correct node: a removed channel is absent from it, an added or replaced definition is
   exactly what it holds *)
Theorem C06_def_change_traces_to_correct_cache :
  forall h check codec_ok cf seq prev_bytes (ss : list OutcomeEndToEnd.lsender) prev next c,
  ReportsNoPanic.bok prev_bytes -> OutcomeEndToEnd.lsenders_ok codec_ok cf seq prev_bytes ss -> 1 < seq ->
  outcome_step h cf seq prev (map fst (OutcomeEndToEnd.tagged check codec_ok cf seq prev_bytes ss)) = Ok next ->
  (length (List.filter (fun p : option observation * bool => negb (snd p)) (OutcomeEndToEnd.tagged check codec_ok cf seq prev_bytes ss)) <= c_f cf)%nat ->
  o_defs next !! c <> o_defs prev !! c ->
  exists i, (exists rms ups vals, In (OutcomeEndToEnd.LCorrect i rms ups vals) ss) /\
            ((o_defs next !! c = None /\ OutcomeEndToEnd.oi_expected i !! c = None) \/
             (exists d, o_defs next !! c = Some d /\ OutcomeEndToEnd.oi_expected i !! c = Some d)).
Proof. exact OutcomeEndToEnd.llo_def_change_traces_to_correct_cache. Qed.
Print Assumptions C06_def_change_traces_to_correct_cache.

(* ... and the lifecycle: with at most f faulty senders, an instance retires only if some correct node's ShouldRetire cache
   said so, and a staging instance is promoted only on an attestation that the retirement-report cache verifies *)
Theorem C06_stage_change_traces_back :
  forall h check codec_ok cf seq prev_bytes (ss : list OutcomeEndToEnd.lsender) prev next,
  ReportsNoPanic.bok prev_bytes -> OutcomeEndToEnd.lsenders_ok codec_ok cf seq prev_bytes ss -> 1 < seq ->
  outcome_step h cf seq prev (map fst (OutcomeEndToEnd.tagged check codec_ok cf seq prev_bytes ss)) = Ok next ->
  (length (List.filter (fun p : option observation * bool => negb (snd p)) (OutcomeEndToEnd.tagged check codec_ok cf seq prev_bytes ss)) <= c_f cf)%nat ->
  o_stage next <> o_stage prev ->
  (o_stage next = Retired /\ exists i, (exists rms ups vals, In (OutcomeEndToEnd.LCorrect i rms ups vals) ss) /\ OutcomeEndToEnd.oi_retire i = Ok true) \/
  (o_stage prev = Staging /\ o_stage next = Production /\ c_has_pred cf = true /\
   exists va ob, Some ob ∈ map fst (OutcomeEndToEnd.tagged check codec_ok cf seq prev_bytes ss) /\ ob_att ob = GoodAttest va).
Proof. exact OutcomeEndToEnd.llo_stage_change_traces_back. Qed.
Print Assumptions C06_stage_change_traces_back.

Example C06_nv_end_to_end :
  ReportsNoPanic.bok NvE2E.e6_prev_bytes /\ OutcomeEndToEnd.lsenders_ok (fun _ => true) nv_cf 2 NvE2E.e6_prev_bytes NvE2E.e6_ss /\
  (length (List.filter (fun p : option observation * bool => negb (snd p)) NvE2E.e6_tagged) <= c_f nv_cf)%nat /\
  match outcome_step nv_h nv_cf 2 p1 (map fst NvE2E.e6_tagged) with
  | Ok next => o_defs next !! 7 = Some nv_def /\ o_defs p1 !! 7 = None
  | _ => False end.
Proof. exact NvE2E.e6_round. Qed.

(* non-vacuity: channel 7 added with 3 > f = 1 votes; while retired 3 votes to remove 7 / add 8 change nothing *)
Example C06_nv :
  o_defs p1 !! 7 = None /\ o_defs p2 !! 7 = Some nv_def /\ o_stage p6 = Retired /\
  o_defs p7 !! 7 = Some nv_def /\ o_defs p7 !! 8 = None.
Proof. vm_compute. repeat split; reflexivity. Qed.

(* the same two vote laws ON THE WIRE (BytesHistory): one successful call of Plugin.Outcome, bytes in and bytes out; votes are
   counted over the observation bytes that decode *)
Theorem C06_def_change_needs_votes_on_the_wire : forall h check cf (b : BytesHistory.bevent) c,
  BytesHistory.check_typed check -> BytesHistory.bvalid h check cf b ->
  o_defs (BytesHistory.dec_or_initial cf (BytesHistory.bv_next b)) !! c <> o_defs (BytesHistory.dec_or_initial cf (BytesHistory.bv_prev b)) !! c ->
  exists rr obs, accept_observations (c_has_pred cf) (map (PluginOutcomeBytes.obs_of_bytes check) (BytesHistory.bv_obs b)) = Ok (rr, obs) /\
    o_stage (BytesHistory.dec_or_initial cf (BytesHistory.bv_prev b)) <> Retired /\
    o_stage (BytesHistory.dec_or_initial cf (BytesHistory.bv_next b)) <> Retired /\
    ((o_defs (BytesHistory.dec_or_initial cf (BytesHistory.bv_next b)) !! c = None /\ (c_f cf < remove_votes obs c)%nat) \/
     (exists d, o_defs (BytesHistory.dec_or_initial cf (BytesHistory.bv_next b)) !! c = Some d /\ (c_f cf < update_votes obs c d)%nat)).
Proof. exact BytesHistory.def_change_needs_votes_on_the_wire. Qed.
Print Assumptions C06_def_change_needs_votes_on_the_wire.

Theorem C06_stage_change_needs_votes_or_attestation_on_the_wire : forall h check cf (b : BytesHistory.bevent),
  BytesHistory.check_typed check -> BytesHistory.bvalid h check cf b ->
  o_stage (BytesHistory.dec_or_initial cf (BytesHistory.bv_next b)) <> o_stage (BytesHistory.dec_or_initial cf (BytesHistory.bv_prev b)) ->
  exists rr obs, accept_observations (c_has_pred cf) (map (PluginOutcomeBytes.obs_of_bytes check) (BytesHistory.bv_obs b)) = Ok (rr, obs) /\
    ((o_stage (BytesHistory.dec_or_initial cf (BytesHistory.bv_prev b)) = Staging /\
      (o_stage (BytesHistory.dec_or_initial cf (BytesHistory.bv_next b)) = Production \/
       (o_stage (BytesHistory.dec_or_initial cf (BytesHistory.bv_next b)) = Retired /\ (c_f cf < retire_votes obs)%nat)) /\
      c_has_pred cf = true /\
      exists va ob, Some ob ∈ map (PluginOutcomeBytes.obs_of_bytes check) (BytesHistory.bv_obs b) /\ ob_att ob = GoodAttest va) \/
     (o_stage (BytesHistory.dec_or_initial cf (BytesHistory.bv_prev b)) = Production /\
      o_stage (BytesHistory.dec_or_initial cf (BytesHistory.bv_next b)) = Retired /\ (c_f cf < retire_votes obs)%nat)).
Proof. exact BytesHistory.stage_change_needs_votes_or_attestation_on_the_wire. Qed.
Print Assumptions C06_stage_change_needs_votes_or_attestation_on_the_wire.

(* non-vacuity on the wire (props/NvWire.v): round 2 as bytes changes the definition of channel 7, round 6 as bytes retires *)
Example C06_nv_on_the_wire :
  BytesHistory.bvalid nv_h NvWire.w_check nv_cf NvWire.w_e2 /\
  o_defs (BytesHistory.dec_or_initial nv_cf (BytesHistory.bv_prev NvWire.w_e2)) !! 7 = None /\
  o_defs (BytesHistory.dec_or_initial nv_cf (BytesHistory.bv_next NvWire.w_e2)) !! 7 = Some nv_def /\
  BytesHistory.bvalid nv_h NvWire.w_check nv_cf NvWire.w_e6 /\
  o_stage (BytesHistory.dec_or_initial nv_cf (BytesHistory.bv_prev NvWire.w_e6)) = Production /\
  o_stage (BytesHistory.dec_or_initial nv_cf (BytesHistory.bv_next NvWire.w_e6)) = Retired.
Proof. destruct NvWire.w_votes as (H1 & H2 & H3 & H4 & H5 & H6 & _). exact (conj H1 (conj H2 (conj H3 (conj H4 (conj H5 H6))))). Qed.
