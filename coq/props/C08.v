(* C08 — Mercury consensus values are byzantine-robust.  Observations are tagged
   ((value, valid flag), from a correct observer?); the functions see only `map fst`. *)
From DS Require Import Base Sort Decimal MercuryAgg RankMedian MercuryAggProofs.
From DS Require MercuryReport MercuryWire MercuryObserve MercObserveProofs.

Theorem C08_consensus_timestamp_in_honest_range : forall (tts : list (Z * bool)) t,
  (faulty_count tts < honest_count tts)%nat -> consensus_timestamp (map fst tts) = Ok t ->
  exists lo hi, In (lo, true) tts /\ In (hi, true) tts /\ lo <= t <= hi.
Proof. exact consensus_timestamp_in_honest_range. Qed.
Print Assumptions C08_consensus_timestamp_in_honest_range.

(* benchmark price, bid, ask *)
Theorem C08_consensus_price_in_honest_range : forall (txs : list (field * bool)) f v,
  (faulty_count (tvalid txs) < honest_count (tvalid txs))%nat ->
  consensus_price (map fst txs) f = Ok v ->
  exists lo hi, In ((lo, true), true) txs /\ In ((hi, true), true) txs /\ lo <= v <= hi.
Proof. exact consensus_price_in_honest_range. Qed.
Print Assumptions C08_consensus_price_in_honest_range.

(* LINK fee, native fee: valid and non-negative values only *)
Theorem C08_consensus_fee_in_honest_range : forall (txs : list (field * bool)) f v,
  (faulty_count (tfee txs) < honest_count (tfee txs))%nat ->
  consensus_fee (map fst txs) f = Ok v ->
  0 <= v /\ exists lo hi, In ((lo, true), true) txs /\ In ((hi, true), true) txs /\ lo <= v <= hi.
Proof. exact consensus_fee_in_honest_range. Qed.
Print Assumptions C08_consensus_fee_in_honest_range.

(* fewer than f+1 usable values: an error (the zero-fee fallback is taken by the caller, see C07) *)
Theorem C08_err_below_f_plus_1 : forall (xs : list field) (f : nat),
  ((length (valid_vals xs) < f + 1)%nat -> consensus_price xs f = Err ETooFew) /\
  ((length (filter (fun x => (0 <=? x)%Z) (valid_vals xs)) < f + 1)%nat -> consensus_fee xs f = Err ETooFew) /\
  ((forall v, (count_Z v (valid_vals xs) <= f)%nat) -> forall ks, max_finalized_ts_order ks xs f = Err ETooFew).
Proof.
  intros xs f. split; [apply consensus_price_err_below_f_plus_1|].
  split; [apply consensus_fee_err_below_f_plus_1|]. intros H ks. apply max_finalized_ts_err_below_f_plus_1. exact H.
Qed.
Print Assumptions C08_err_below_f_plus_1.

(* selectors: the result was reported (as valid) identically by at least f+1 observers, for every map order *)
Theorem C08_selectors_reported_by_f_plus_1 : forall ks (xs : list field) f v,
  (max_finalized_ts_order ks xs f = Ok v -> (f + 1 <= count_Z v (valid_vals xs))%nat) /\
  (max_finalized_block_order ks xs f = Ok v -> (f + 1 <= count_Z v (valid_vals xs))%nat) /\
  (market_status_order ks xs f = Ok v -> (f + 1 <= count_Z v (valid_vals xs))%nat).
Proof.
  intros ks xs f v. split; [apply max_finalized_ts_reported_by_f_plus_1|].
  split; [apply max_finalized_block_reported_by_f_plus_1|apply market_status_reported_by_f_plus_1].
Qed.
Print Assumptions C08_selectors_reported_by_f_plus_1.

(* ... hence, with at most f faulty observers, by a correct one *)
Theorem C08_f_plus_1_votes_honest_witness : forall (txs : list (field * bool)) f v,
  (length (filter (fun p => negb (snd p)) txs) <= f)%nat ->
  (f + 1 <= count_Z v (valid_vals (map fst txs)))%nat ->
  In ((v, true), true) txs.
Proof. exact f_plus_1_votes_honest_witness. Qed.
Print Assumptions C08_f_plus_1_votes_honest_witness.

(* v1 latest block: an identical (number, hash, timestamp) triple from f+1 observers, one of them correct *)
Theorem C08_latest_block_reported_by_f_plus_1 : forall obs f b,
  latest_block obs f = Ok b -> (f + 1 <= count_block b (flat_map obs_blocks obs))%nat.
Proof. exact latest_block_reported_by_f_plus_1. Qed.
Theorem C08_latest_block_honest_witness : forall (tobs : list ((list block * option block) * bool)) f b,
  (forall o h, In (o, h) tobs -> NoDup (obs_blocks o)) ->
  (length (filter (fun p => negb (snd p)) tobs) <= f)%nat ->
  latest_block (map fst tobs) f = Ok b ->
  exists o, In (o, true) tobs /\ In b (obs_blocks o).
Proof. exact latest_block_honest_witness. Qed.
Print Assumptions C08_latest_block_honest_witness.

(* the max-finalized timestamp does not depend on the map iteration order *)
Theorem C08_max_finalized_ts_order_independent : forall ks xs f,
  Permutation.Permutation ks (nodup_Z (valid_vals xs)) -> max_finalized_ts_order ks xs f = max_finalized_ts xs f.
Proof. exact max_finalized_ts_order_independent. Qed.

(* ---- "a value from a correct observer", grounded in the code a correct observer runs ----
   MercuryObserve.merc_observe234 is the model of MercuryPlugin.Observation (v2-v4): what a correct node sends, given what
   its data source returned and its clock; merc_encode234 / merc_decode234 are proto.Marshal / proto.Unmarshal of the
   message. `received` = what Report's parser keeps of a round in which some senders are correct nodes and the others
   send arbitrary bytes. *)
Import MercuryReport MercuryWire MercuryObserve MercObserveProofs.

(* every correct node reads a correct node's observation as exactly the sender's data-source values *)
Theorem C08_correct_observation_is_counted : forall ver base now fail ds m,
  ver = 2 \/ ver = 3 \/ ver = 4 -> 0 <= now -> ds_typed ds ->
  merc_observe234 ver base now fail ds = Ok m ->
  exists m', merc_decode234 ver (merc_encode234 ver m) = Some m' /\ parse234 ver m' = Some (expected_pao ver base now ds).
Proof. exact correct_observation_is_counted. Qed.
Print Assumptions C08_correct_observation_is_counted.

Theorem C08_correct_observation1_is_counted : forall now prev_nil fail ds m, ds1_typed ds ->
  merc_observe1 now prev_nil fail ds = Ok m ->
  exists m', merc_decode1 (merc_encode1 m) = Some m' /\
             parse1 m' = if blocks_okb ds then Some (expected_pao1 now prev_nil ds) else None.
Proof. exact correct_observation1_is_counted. Qed.
Print Assumptions C08_correct_observation1_is_counted.

Theorem C08_consensus_benchmark_between_data_sources : forall ver base ss f v,
  ver = 2 \/ ver = 3 \/ ver = 4 -> senders_ok ss ->
  let txs := map (fun pt => (p_bm (fst pt), snd pt)) (received ver base ss) in
  (faulty_count (tvalid txs) < honest_count (tvalid txs))%nat ->
  consensus_price (map fst txs) f = Ok v ->
  exists n1 d1 n2 d2 lo hi, In (Correct n1 d1) ss /\ In (Correct n2 d2) ss /\
                            ds_bm d1 = Some lo /\ ds_bm d2 = Some hi /\ lo <= v <= hi.
Proof. exact consensus_benchmark_between_data_sources. Qed.
Print Assumptions C08_consensus_benchmark_between_data_sources.

Theorem C08_consensus_bid_between_data_sources : forall base ss f v, senders_ok ss ->
  let txs := map (fun pt => (p_bid (fst pt), snd pt)) (received 3 base ss) in
  (faulty_count (tvalid txs) < honest_count (tvalid txs))%nat -> consensus_price (map fst txs) f = Ok v ->
  exists n1 d1 n2 d2 lo hi, In (Correct n1 d1) ss /\ In (Correct n2 d2) ss /\ ds_bid d1 = Some lo /\ ds_bid d2 = Some hi /\ lo <= v <= hi.
Proof. exact consensus_bid_between_data_sources. Qed.
Theorem C08_consensus_ask_between_data_sources : forall base ss f v, senders_ok ss ->
  let txs := map (fun pt => (p_ask (fst pt), snd pt)) (received 3 base ss) in
  (faulty_count (tvalid txs) < honest_count (tvalid txs))%nat -> consensus_price (map fst txs) f = Ok v ->
  exists n1 d1 n2 d2 lo hi, In (Correct n1 d1) ss /\ In (Correct n2 d2) ss /\ ds_ask d1 = Some lo /\ ds_ask d2 = Some hi /\ lo <= v <= hi.
Proof. exact consensus_ask_between_data_sources. Qed.
Theorem C08_consensus_native_fee_between_computed_fees : forall ver base ss f v,
  ver = 2 \/ ver = 3 \/ ver = 4 -> senders_ok ss ->
  let txs := map (fun pt => (p_native (fst pt), snd pt)) (received ver base ss) in
  (faulty_count (tfee txs) < honest_count (tfee txs))%nat -> consensus_fee (map fst txs) f = Ok v ->
  0 <= v /\ exists n1 d1 n2 d2 lo hi, In (Correct n1 d1) ss /\ In (Correct n2 d2) ss /\
                            fee_val base (ds_native d1) = (lo, true) /\ fee_val base (ds_native d2) = (hi, true) /\ lo <= v <= hi.
Proof. exact consensus_native_fee_between_computed_fees. Qed.
Print Assumptions C08_consensus_bid_between_data_sources.
Print Assumptions C08_consensus_native_fee_between_computed_fees.

(* v1: the same, with the observations a correct node's parser keeps (block lists well-formed) *)
Theorem C08_consensus_benchmark1_between_data_sources : forall ss f v, senders1_ok ss ->
  let txs := map (fun pt => (q_bm (fst pt), snd pt)) (received_v1 ss) in
  (faulty_count (tvalid txs) < honest_count (tvalid txs))%nat ->
  consensus_price (map fst txs) f = Ok v ->
  exists n1 p1 d1 n2 p2 d2 lo hi, In (Correct1 n1 p1 d1) ss /\ In (Correct1 n2 p2 d2) ss /\
                            d1_bm d1 = Some lo /\ d1_bm d2 = Some hi /\ lo <= v <= hi.
Proof. exact consensus_benchmark1_between_data_sources. Qed.
Print Assumptions C08_consensus_benchmark1_between_data_sources.

(* v1 consensus block: with at most f faulty senders it is a block that some correct node's data source listed (the parser
   keeps only observations without duplicate block numbers: parse1_nodup) *)
Theorem C08_consensus_block_from_a_correct_data_source : forall ss f b, senders1_ok ss ->
  (length (filter (fun s => negb (is_correct1 s)) ss) <= f)%nat ->
  let tobs := map (fun pt => (q_blocks (fst pt), snd pt)) (received_v1 ss) in
  latest_block (map fst tobs) f = Ok b ->
  exists n pn d, In (Correct1 n pn d) ss /\ In b (obs_blocks (d1_blocks d, if cur1_valid d then Some (cur1 d) else None)).
Proof. exact consensus_block_from_a_correct_data_source. Qed.
Print Assumptions C08_consensus_block_from_a_correct_data_source.

Theorem C08_consensus_link_fee_between_computed_fees : forall ver base ss f v,
  ver = 2 \/ ver = 3 \/ ver = 4 -> senders_ok ss ->
  let txs := map (fun pt => (p_link (fst pt), snd pt)) (received ver base ss) in
  (faulty_count (tfee txs) < honest_count (tfee txs))%nat ->
  consensus_fee (map fst txs) f = Ok v ->
  0 <= v /\ exists n1 d1 n2 d2 lo hi, In (Correct n1 d1) ss /\ In (Correct n2 d2) ss /\
                            fee_val base (ds_link d1) = (lo, true) /\ fee_val base (ds_link d2) = (hi, true) /\ lo <= v <= hi.
Proof. exact consensus_link_fee_between_computed_fees. Qed.
Print Assumptions C08_consensus_link_fee_between_computed_fees.

Theorem C08_consensus_timestamp_between_clocks : forall ver base ss t,
  ver = 2 \/ ver = 3 \/ ver = 4 -> senders_ok ss ->
  let tts := map (fun pt => (p_ts (fst pt), snd pt)) (received ver base ss) in
  (faulty_count tts < honest_count tts)%nat ->
  consensus_timestamp (map fst tts) = Ok t ->
  exists n1 d1 n2 d2, In (Correct n1 d1) ss /\ In (Correct n2 d2) ss /\ n1 <= t <= n2.
Proof. exact consensus_timestamp_between_clocks. Qed.
Print Assumptions C08_consensus_timestamp_between_clocks.

(* selectors end to end: with at most f senders of arbitrary bytes, the consensus max-finalized timestamp (the bootstrap
   of C09) and the v4 market status are values that some correct node's data source returned *)
Theorem C08_consensus_max_finalized_from_a_correct_data_source : forall ver base ss ks f v,
  ver = 2 \/ ver = 3 \/ ver = 4 -> senders_ok ss ->
  (length (filter (fun s => negb (is_correct s)) ss) <= f)%nat ->
  let txs := map (fun pt => (p_mfts (fst pt), snd pt)) (received ver base ss) in
  max_finalized_ts_order ks (map fst txs) f = Ok v ->
  exists n d, In (Correct n d) ss /\ ds_mfts d = Some v.
Proof. exact consensus_max_finalized_from_a_correct_data_source. Qed.
Theorem C08_consensus_market_status_from_a_correct_data_source : forall base ss ks f v,
  senders_ok ss ->
  (length (filter (fun s => negb (is_correct s)) ss) <= f)%nat ->
  let txs := map (fun pt => (p_status (fst pt), snd pt)) (received 4 base ss) in
  market_status_order ks (map fst txs) f = Ok v ->
  exists n d, In (Correct n d) ss /\ ds_status d = Some v.
Proof. exact consensus_market_status_from_a_correct_data_source. Qed.
Print Assumptions C08_consensus_max_finalized_from_a_correct_data_source.
Print Assumptions C08_consensus_market_status_from_a_correct_data_source.

(* what a correct v2-v4 node sends fits MaxObservationLength as the real factory declares it to libocr (the constants are
   regenerated from /repo on every run: MercMaxObservationLength2/3/4), so libocr does not discard it for its size *)
Theorem C08_correct_observation_within_declared_length : forall ver base now fail ds m,
  ver = 2 \/ ver = 3 \/ ver = 4 -> 0 <= now -> ds_typed ds ->
  merc_observe234 ver base now fail ds = Ok m ->
  Z.of_nat (length (merc_encode234 ver m)) <= merc_limit ver.
Proof. exact merc_observation_within_limit. Qed.
Print Assumptions C08_correct_observation_within_declared_length.
Example C08_gen_observation_limits : merc_size 2 <= merc_limit 2 /\ merc_size 3 <= merc_limit 3 /\ merc_size 4 <= merc_limit 4.
Proof. vm_compute. repeat split; discriminate. Qed.

(* the fee a correct node sends: 100 x the integer nearest to baseUSDFee x 10^34 / price, non-negative for a
   non-negative base fee *)
Theorem C08_calc_fee_nearest : forall price base fee, price <> 0 -> dzc base <> 0 ->
  merc_calc_fee price base = Ok fee ->
  exists q, fee = 100 * q /\ 2 * Z.abs (q * fee_den price base - fee_num base) <= Z.abs (fee_den price base).
Proof. exact merc_calc_fee_nearest. Qed.
Theorem C08_calc_fee_sign : forall price base fee, 0 < price -> 0 <= dzc base -> merc_calc_fee price base = Ok fee -> 0 <= fee.
Proof. exact merc_calc_fee_sign. Qed.
Print Assumptions C08_calc_fee_nearest.

(* non-vacuity: f = 1; three correct v3 nodes whose data sources return 1000 / 1002 / 1001 (bid, ask around), one faulty
   sender with a well-formed observation claiming 10^30: the consensus benchmark is 1002 *)
Definition C08_nv_ds (bm : Z) : ds234 :=
  {| ds_bm := Some bm; ds_bid := Some (bm - 1); ds_ask := Some (bm + 1); ds_mfts := Some 5;
     ds_link := Some (7 * 10 ^ 18); ds_native := Some (-1); ds_status := None |}.
Definition C08_nv_faulty : bytes :=
  match merc_observe234 3 (mkdec 1 (-3)) 1700000000 false (C08_nv_ds (10 ^ 30)) with Ok m => merc_encode234 3 m | _ => [] end.
Definition C08_nv_senders : list sender :=
  [Correct 1700000000 (C08_nv_ds 1000); Faulty C08_nv_faulty; Correct 1700000001 (C08_nv_ds 1002); Correct 1700000002 (C08_nv_ds 1001)].
Example C08_nv_round :
  let txs := map (fun pt => (p_bm (fst pt), snd pt)) (received 3 (mkdec 1 (-3)) C08_nv_senders) in
  (length txs = 4)%nat /\ (faulty_count (tvalid txs) < honest_count (tvalid txs))%nat /\
  consensus_price (map fst txs) 1 = Ok 1002.
Proof. vm_compute. split; [reflexivity|]. split; [lia|reflexivity]. Qed.

(* non-vacuity *)
Example C08_nv :
  consensus_price [(100, true); (10 ^ 30, true); (101, true); (99, false); (102, true)] 1 = Ok 102 /\
  max_finalized_ts [(5, true); (7, true); (5, true); (7, true); (9, true)] 1 = Ok 7 /\
  market_status [(2, true); (1, true); (2, true); (1, true)] 1 = Ok 1 /\
  latest_block [([{| bnum := 9; bhash := [1]; bts := 3 |}; {| bnum := 8; bhash := [2]; bts := 2 |}], None);
                ([{| bnum := 8; bhash := [2]; bts := 2 |}], None); ([], Some {| bnum := 9; bhash := [7]; bts := 3 |})] 1
    = Ok {| bnum := 8; bhash := [2]; bts := 2 |}.
Proof. vm_compute. repeat split; reflexivity. Qed.
