(* C08 — Mercury consensus values are byzantine-robust.  Observations are tagged
   ((value, valid flag), from a correct observer?); the functions see only `map fst`. *)
From DS Require Import Base Sort MercuryAgg RankMedian MercuryAggProofs.

Theorem C08_consensus_timestamp_in_honest_range : forall (tts : list (Z * bool)) t,
  (faulty_count tts < honest_count tts)%nat -> consensus_timestamp (map fst tts) = Ok t ->
  exists lo hi, In (lo, true) tts /\ In (hi, true) tts /\ lo <= t <= hi.
Proof. exact consensus_timestamp_in_honest_range. Qed.
Print Assumptions C08_consensus_timestamp_in_honest_range.

(* benchmark price, bid, ask *)
Theorem C08_consensus_price_in_honest_range : forall (txs : list (field * bool)) f v,
  (faulty_count (tvalid txs) < honest_count (tvalid txs))%nat ->
  consensus_price (map fst txs) f = Ok v ->
  exists lo hi, In ((lo, true), true) txs /\ In ((hi, true), true) txs /\ lo <= v <= hi.
Proof. exact consensus_price_in_honest_range. Qed.
Print Assumptions C08_consensus_price_in_honest_range.

(* LINK fee, native fee: valid and non-negative values only *)
Theorem C08_consensus_fee_in_honest_range : forall (txs : list (field * bool)) f v,
  (faulty_count (tfee txs) < honest_count (tfee txs))%nat ->
  consensus_fee (map fst txs) f = Ok v ->
  0 <= v /\ exists lo hi, In ((lo, true), true) txs /\ In ((hi, true), true) txs /\ lo <= v <= hi.
Proof. exact consensus_fee_in_honest_range. Qed.
Print Assumptions C08_consensus_fee_in_honest_range.

(* fewer than f+1 usable values: an error (the zero-fee fallback is taken by the caller, see C07) *)
Theorem C08_err_below_f_plus_1 : forall (xs : list field) (f : nat),
  ((length (valid_vals xs) < f + 1)%nat -> consensus_price xs f = Err ETooFew) /\
  ((length (filter (fun x => (0 <=? x)%Z) (valid_vals xs)) < f + 1)%nat -> consensus_fee xs f = Err ETooFew) /\
  ((forall v, (count_Z v (valid_vals xs) <= f)%nat) -> forall ks, max_finalized_ts_order ks xs f = Err ETooFew).
Proof.
  intros xs f. split; [apply consensus_price_err_below_f_plus_1|].
  split; [apply consensus_fee_err_below_f_plus_1|]. intros H ks. apply max_finalized_ts_err_below_f_plus_1. exact H.
Qed.
Print Assumptions C08_err_below_f_plus_1.

(* selectors: the result was reported (as valid) identically by at least f+1 observers, for every map order *)
Theorem C08_selectors_reported_by_f_plus_1 : forall ks (xs : list field) f v,
  (max_finalized_ts_order ks xs f = Ok v -> (f + 1 <= count_Z v (valid_vals xs))%nat) /\
  (max_finalized_block_order ks xs f = Ok v -> (f + 1 <= count_Z v (valid_vals xs))%nat) /\
  (market_status_order ks xs f = Ok v -> (f + 1 <= count_Z v (valid_vals xs))%nat).
Proof.
  intros ks xs f v. split; [apply max_finalized_ts_reported_by_f_plus_1|].
  split; [apply max_finalized_block_reported_by_f_plus_1|apply market_status_reported_by_f_plus_1].
Qed.
Print Assumptions C08_selectors_reported_by_f_plus_1.

(* ... hence, with at most f faulty observers, by a correct one *)
Theorem C08_f_plus_1_votes_honest_witness : forall (txs : list (field * bool)) f v,
  (length (filter (fun p => negb (snd p)) txs) <= f)%nat ->
  (f + 1 <= count_Z v (valid_vals (map fst txs)))%nat ->
  In ((v, true), true) txs.
Proof. exact f_plus_1_votes_honest_witness. Qed.
Print Assumptions C08_f_plus_1_votes_honest_witness.

(* v1 latest block: an identical (number, hash, timestamp) triple from f+1 observers, one of them correct *)
Theorem C08_latest_block_reported_by_f_plus_1 : forall obs f b,
  latest_block obs f = Ok b -> (f + 1 <= count_block b (flat_map obs_blocks obs))%nat.
Proof. exact latest_block_reported_by_f_plus_1. Qed.
Theorem C08_latest_block_honest_witness : forall (tobs : list ((list block * option block) * bool)) f b,
  (forall o h, In (o, h) tobs -> NoDup (obs_blocks o)) ->
  (length (filter (fun p => negb (snd p)) tobs) <= f)%nat ->
  latest_block (map fst tobs) f = Ok b ->
  exists o, In (o, true) tobs /\ In b (obs_blocks o).
Proof. exact latest_block_honest_witness. Qed.
Print Assumptions C08_latest_block_honest_witness.

(* the max-finalized timestamp does not depend on the map iteration order *)
Theorem C08_max_finalized_ts_order_independent : forall ks xs f,
  Permutation.Permutation ks (nodup_Z (valid_vals xs)) -> max_finalized_ts_order ks xs f = max_finalized_ts xs f.
Proof. exact max_finalized_ts_order_independent. Qed.

(* non-vacuity *)
Example C08_nv :
  consensus_price [(100, true); (10 ^ 30, true); (101, true); (99, false); (102, true)] 1 = Ok 102 /\
  max_finalized_ts [(5, true); (7, true); (5, true); (7, true); (9, true)] 1 = Ok 7 /\
  market_status [(2, true); (1, true); (2, true); (1, true)] 1 = Ok 1 /\
  latest_block [([{| bnum := 9; bhash := [1]; bts := 3 |}; {| bnum := 8; bhash := [2]; bts := 2 |}], None);
                ([{| bnum := 8; bhash := [2]; bts := 2 |}], None); ([], Some {| bnum := 9; bhash := [7]; bts := 3 |})] 1
    = Ok {| bnum := 8; bhash := [2]; bts := 2 |}.
Proof. vm_compute. repeat split; reflexivity. Qed.
