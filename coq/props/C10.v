(* C10 — the LLO outcome codec is canonical and loss-free.
   The byte-level model (OutcomeCodec.v: protobuf wire format of LLOOutcomeProtoV0/V1) is compared with the Go
   codecs on every run (bytes for Encode, structure for Decode).  Proved here: the wire layer and every stream
   value round-trip, the encoding is canonical, decoding is total, version 0 never stores a wrapped value.
   The composed statement for whole outcomes (C10_decode_encode: any number of channels, streams, aggregates) is
   proved in proofs/OutcomeRoundTrip.v from the wire-level lemmas below. *)
From stdpp Require Import gmap.
From DS Require Import Base Decimal StreamValue Wire Sort Aggregators Outcome OutcomeCodec PluginOutcome.
From DS Require Import WireProofs StreamValueProofs OutcomeCodecProofs OutcomeRoundTrip ReportsNoPanic DecodedWf StepBytes.
From DS Require CasesOutCodec.
Open Scope Z_scope.

(* wire layer: what the encoder writes is what the parser reads back *)
Theorem C10_varint_roundtrip : forall v rest, 0 <= v < 2 ^ 64 -> parse_varint (varint v ++ rest) = Some (v, rest).
Proof. exact parse_varint_varint. Qed.
Theorem C10_fields_roundtrip : forall k rest,
  field_ok k ->
  (forall v, 0 < v < 2 ^ 64 -> parse_fields (f_varint k v ++ rest) = option_map (cons (k, RVarint v)) (parse_fields rest)) /\
  (forall body, Z.of_nat (length body) < 2 ^ 64 ->
     parse_fields (f_msg k body ++ rest) = option_map (cons (k, RBytes body)) (parse_fields rest)) /\
  (forall body, body <> [] -> Z.of_nat (length body) < 2 ^ 64 ->
     parse_fields (f_bytes k body ++ rest) = option_map (cons (k, RBytes body)) (parse_fields rest)).
Proof.
  intros k rest Hk. split; [intros; apply parse_fields_varint_field; assumption|].
  split; [intros; apply parse_fields_msg_field; assumption|intros; apply parse_fields_bytes_field; assumption].
Qed.
Print Assumptions C10_fields_roundtrip.

(* every aggregate value (Decimal of either sign incl. negative zero and any int32 scale, Quote, timestamped value)
   decodes from its encoding to exactly itself *)
Theorem C10_stream_value_roundtrip : forall v,
  sval_ok v -> sval_small v -> (sval_depth v <= 2)%nat -> sval_unmarshal (sv_type v) (sval_marshal v) = Ok v.
Proof. exact sval_roundtrip. Qed.
Print Assumptions C10_stream_value_roundtrip.

(* ---- the composed statement ----
   outcome_wf: the fields are in the ranges of their Go types (uint32 ids/formats/aggregators, uint64 times,
   int32 decimal scales, timestamped values nested at most twice — deeper nesting is refused by the decoder since
   the D7 repair) and the stage string is one of the three constants or any other string (not re-spelling one);
   small bs: the encoding is shorter than 2^64 bytes.
   Outcome.codec_commit is what the plugin's step function (Outcome.outcome_step) uses as "state after the codec":
   version 1 returns the outcome itself, version 0 floors every validity start to whole seconds. *)
Theorem C10_decode_encode : forall pver o bs,
  outcome_wf o -> encode_outcome pver o = Ok bs -> small bs -> decode_outcome pver bs = codec_commit pver o.
Proof. exact decode_encode. Qed.
Print Assumptions C10_decode_encode.

(* spelled out field by field *)
Theorem C10_fields_preserved : forall pver o bs o',
  outcome_wf o -> encode_outcome pver o = Ok bs -> small bs -> decode_outcome pver bs = Ok o' ->
  o_stage o' = o_stage o /\ o_ts o' = o_ts o /\ o_defs o' = o_defs o /\ o_aggs o' = o_aggs o /\
  (forall c, o_va o' !! c = (if pver =? 0 then (fun v => v / ns_per_s * ns_per_s) else (fun v => v)) <$> (o_va o !! c)).
Proof.
  intros pver o bs o' Hwf Henc Hsm Hdec. rewrite (decode_encode pver o bs Hwf Henc Hsm) in Hdec.
  unfold codec_commit in Hdec. destruct (pver =? 0).
  - destruct (max_int64 <? o_ts o); [discriminate|].
    destruct (bool_decide (map_Forall (fun _ v => v / ns_per_s <= max_uint32) (o_va o))); [|discriminate].
    inversion Hdec; subst; cbn. repeat split; try reflexivity. intros c. rewrite lookup_fmap. reflexivity.
  - inversion Hdec; subst. repeat split; try reflexivity. intros c. destruct (o_va o' !! c); reflexivity.
Qed.
Print Assumptions C10_fields_preserved.

(* encode-after-decode reproduces the bytes *)
Theorem C10_reencode_stable : forall pver o bs o',
  outcome_wf o -> small bs -> encode_outcome pver o = Ok bs -> decode_outcome pver bs = Ok o' -> encode_outcome pver o' = Ok bs.
Proof. exact reencode_stable. Qed.
Print Assumptions C10_reencode_stable.

(* ---- arbitrary bytes ----
   whatever decodes is a well-formed outcome: ids uint32, times uint64, decimal scales int32, timestamped values nested
   at most twice, stage string canonical; it re-encodes (version 1 always), and decoding that gives the same outcome *)
Theorem C10_decoded_outcome_wf : forall pver bs o, decode_outcome pver bs = Ok o -> bok bs -> outcome_wf o.
Proof. exact decoded_outcome_wf. Qed.
Print Assumptions C10_decoded_outcome_wf.
Theorem C10_decode_reencode_v1 : forall bs o, decode_outcome 1 bs = Ok o -> bok bs ->
  exists bs', encode_outcome 1 o = Ok bs' /\ (small bs' -> decode_outcome 1 bs' = Ok o).
Proof. exact decode_reencode_v1. Qed.
Print Assumptions C10_decode_reencode_v1.

(* ---- what loss-freeness buys: Plugin.Outcome at BYTE level refines the struct-level step ----
   plugin_outcome decodes the previous outcome bytes, runs the step and encodes the result; Outcome.outcome_step — the
   function all history theorems (C03-C06, C14, C18) are about — ends in codec_commit instead.  For observations as
   ValidateObservation and the observation decoder deliver them (aos_good: uint32 ids, uint64 times, int32 scales,
   nesting <= 2), decoding the bytes Outcome returns gives exactly outcome_step of the decoded previous outcome. *)
Theorem C10_plugin_outcome_refines : forall h cf seq prev_bytes aos bs,
  bok prev_bytes -> aos_good aos -> plugin_outcome h cf seq prev_bytes aos = Ok bs -> small bs ->
  decode_outcome (c_pver cf) bs =
  outcome_step h cf seq (match decode_outcome (c_pver cf) prev_bytes with Ok p => p | _ => initial_outcome cf end) aos.
Proof. exact plugin_outcome_refines. Qed.
Print Assumptions C10_plugin_outcome_refines.

(* canonical: each flattened slice is sorted by pairwise distinct ids, so the order in which the Go map was built
   or iterated cannot influence the bytes *)
Theorem C10_encode_order_independent : forall {V} (m : gmap Z V) (order : list (Z * V)),
  Permutation order (map_to_list m) -> isort key_less order = sorted_entries m.
Proof. intros V. exact sorted_entries_order_independent. Qed.
Print Assumptions C10_encode_order_independent.

(* decoding arbitrary bytes returns an outcome or an error and never panics *)
Theorem C10_decode_total : forall pver bs, is_panic (decode_outcome pver bs) = false.
Proof. exact decode_outcome_no_panic. Qed.
Print Assumptions C10_decode_total.

(* version 0 encodes only representable values (timestamp <= MaxInt64, validity starts <= MaxUint32 seconds): never a wrap;
   version 1 encodes every outcome *)
Theorem C10_encode_v0_ok_in_range : forall o bs,
  encode_outcome 0 o = Ok bs ->
  o_ts o <= max_int64 /\ (forall c v, o_va o !! c = Some v -> v / ns_per_s <= max_uint32).
Proof. exact encode_v0_ok_in_range. Qed.
Theorem C10_encode_v1_total : forall o,
  ascii_ok (stage_bytes (o_stage o)) = true -> exists bs, encode_outcome 1 o = Ok bs.
Proof. exact encode_v1_total. Qed.

(* non-vacuity: an outcome with all three value types round-trips through the byte model, both versions *)
Definition C10_nv_outcome : outcome :=
  {| o_stage := Production; o_ts := 1700000000123456789;
     o_defs := {[ 7 := {| cd_fmt := 2; cd_streams := [(1, 1); (2, 3)]; cd_opts := [1; 2] |} ]};
     o_va := {[ 7 := 1699999999500000000 ]};
     o_aggs := {[ (1, 1) := SDec (mkd true 12345 (-3)); (2, 3) := SQuote (mkdec 1 0) (mkdec 2 0) (mkd false 0 5);
                  (3, 1) := STsv 99 (SDec (mkdec (-7) 2)) ]} |}.
Example C10_nv :
  (match encode_outcome 1 C10_nv_outcome with
   | Ok bs => match decode_outcome 1 bs with Ok o => CasesOutCodec.outcome_eqb o C10_nv_outcome | _ => false end
   | _ => false end) = true /\
  (match encode_outcome 0 C10_nv_outcome with Ok bs => option_map (fun o => o_va o !! 7) (match decode_outcome 0 bs with Ok o => Some o | _ => None end) | _ => None end)
    = Some (Some 1699999999000000000).
Proof. vm_compute. split; reflexivity. Qed.
Example C10_nv_wf : outcome_wf C10_nv_outcome /\
  (match encode_outcome 1 C10_nv_outcome with Ok bs => Z.of_nat (length bs) | _ => 0 end) = 136.
Proof.
  split; [|vm_compute; reflexivity].
  unfold outcome_wf, C10_nv_outcome; cbn [o_stage o_ts o_defs o_va o_aggs].
  split; [reflexivity|]. split; [unfold u64_ok; lia|].
  split. { apply map_Forall_singleton. split; [unfold u32_ok; lia|]. split; [unfold u32_ok; simpl; lia|].
           repeat constructor; unfold u32_ok; simpl; lia. }
  split. { apply map_Forall_singleton. unfold u32_ok, u64_ok. lia. }
  apply map_Forall_insert_2; [|apply map_Forall_insert_2; [|apply map_Forall_singleton]];
    unfold agg_wf, sval_wf, u32_ok; cbn; unfold StreamValueProofs.exp_ok; cbn; lia.
Qed.
