(* NvWire.v — a concrete history on the wire for the non-vacuity of C03_chain_on_the_wire: rounds 3, 4, 5 of NvHistory
   (report / skip / report of channel 7) with the observations marshalled and the outcomes as bytes. *)
From stdpp Require Import gmap.
From DS Require Import Base Decimal StreamValue Sort Aggregators RepoConstants Outcome OutcomeCodec Observe ObservationCodec PluginOutcome PluginOutcomeBytes.
From DS Require Import OutcomeProofs StepTheorems HistoryProofs OutcomeRoundTrip ReportsNoPanic BytesHistory NvHistory.
From Coq Require Import Lia.
Open Scope Z_scope.

Definition w_check : list Z -> option (gmap Z Z) := fun _ => None.
Definition w_obs_bytes (o : option observation) : list Z :=
  match o with
  | Some ob => encode_observation (ob_removes ob) (map_to_list (ob_updates ob)) (map_to_list (ob_values ob))
                 {| ro_att := []; ro_retire := ob_retire ob; ro_ts := ob_ts ob; ro_removes := ob_removes ob;
                    ro_updates := ob_updates ob; ro_values := ob_values ob |}
  | None => []
  end.
Definition w_enc (o : outcome) : list Z := match encode_outcome 1 o with Ok b => b | _ => [] end.
Definition w_run (seq : Z) (prev : list Z) (aos : list (option observation)) : list Z :=
  match plugin_outcome_bytes nv_h w_check nv_cf seq prev (map w_obs_bytes aos) with Ok b => b | _ => [] end.
Definition w_b2 : list Z := w_enc p2.
Definition w_b3 : list Z := w_run 3 w_b2 a3.
Definition w_b4 : list Z := w_run 4 w_b3 a4.
Definition w_b5 : list Z := w_run 5 w_b4 a5.
Definition w_e3 : bevent := {| bv_seq := 3; bv_obs := map w_obs_bytes a3; bv_prev := w_b2; bv_next := w_b3 |}.
Definition w_e4 : bevent := {| bv_seq := 4; bv_obs := map w_obs_bytes a4; bv_prev := w_b3; bv_next := w_b4 |}.
Definition w_e5 : bevent := {| bv_seq := 5; bv_obs := map w_obs_bytes a5; bv_prev := w_b4; bv_next := w_b5 |}.

Definition bokb (bs : list Z) : bool := forallb (fun b => (0 <=? b) && (b <? 256)) bs.
Lemma bokb_ok bs : bokb bs = true -> bok bs.
Proof. unfold bokb, bok. rewrite forallb_forall, Forall_forall. intros H b Hb. specialize (H b Hb). lia. Qed.

Definition bvalidb (e : bevent) : bool :=
  (1 <? bv_seq e) &&
  match plugin_outcome_bytes nv_h w_check nv_cf (bv_seq e) (bv_prev e) (bv_obs e) with Ok b => bool_decide (b = bv_next e) | _ => false end &&
  bokb (bv_prev e) && (Z.of_nat (length (bv_next e)) <? 2 ^ 64) && forallb bokb (bv_obs e) && forallb (values_smallb) (bv_obs e).
Lemma bvalidb_ok e : bvalidb e = true -> bvalid nv_h w_check nv_cf e.
Proof.
  unfold bvalidb, bvalid. rewrite !andb_true_iff. intros (((((H1 & H2) & H3) & H4) & H5) & H6).
  split; [lia|]. split.
  { destruct (plugin_outcome_bytes nv_h w_check nv_cf (bv_seq e) (bv_prev e) (bv_obs e)) as [b| |]; try discriminate.
    apply bool_decide_eq_true in H2. congruence. }
  split; [apply bokb_ok, H3|]. split; [unfold small; lia|]. split.
  - apply Forall_forall. intros bs Hbs. rewrite forallb_forall in H5. apply bokb_ok, H5, Hbs.
  - apply Forall_forall. intros bs Hbs. rewrite forallb_forall in H6. apply H6, Hbs.
Qed.

Definition first_report_is (o : outcome) (seq c : Z) : bool :=
  match snd (reports_of nv_cf seq o) with r :: _ => r_chan r =? c | [] => false end.
Lemma first_report_ok o seq c : first_report_is o seq c = true -> exists r, report_of nv_cf seq o c r.
Proof.
  unfold first_report_is, report_of. destruct (snd (reports_of nv_cf seq o)) as [|r l]; [discriminate|].
  intros H. exists r. split; [apply elem_of_list_here|lia].
Qed.

Example w_history :
  check_typed w_check /\
  Forall (bvalid nv_h w_check nv_cf) (w_e3 :: [w_e4] ++ [w_e5]) /\ blinked (w_e3 :: [w_e4] ++ [w_e5]) /\
  (exists rj, report_of nv_cf 3 (dec_or_initial nv_cf (bv_next w_e3)) 7 rj) /\
  (exists rk, report_of nv_cf 5 (dec_or_initial nv_cf (bv_next w_e5)) 7 rk) /\
  reportable nv_cf (dec_or_initial nv_cf (bv_next w_e4)) 7 = false.
Proof.
  change ([w_e4] ++ [w_e5]) with [w_e4; w_e5].
  split; [intros a va H; discriminate|].
  split; [repeat (apply Forall_cons; [apply bvalidb_ok; vm_compute; reflexivity|]); apply Forall_nil|].
  split; [unfold blinked; split; [reflexivity|split; [reflexivity|exact I]]|].
  split; [apply first_report_ok; vm_compute; reflexivity|].
  split; [apply first_report_ok; vm_compute; reflexivity|].
  vm_compute. reflexivity.
Qed.

(* rounds 2 (channel 7 is added with 3 > f votes) and 6 (the instance retires with 3 > f votes) as byte-level events:
   the premises of the C06 / C04 wire theorems are met by concrete bytes *)
Definition w_b1 : list Z := w_enc p1.
Definition w_b2' : list Z := w_run 2 w_b1 a2.
Definition w_b6 : list Z := w_run 6 w_b5 a6.
Definition w_e2 : bevent := {| bv_seq := 2; bv_obs := map w_obs_bytes a2; bv_prev := w_b1; bv_next := w_b2' |}.
Definition w_e6 : bevent := {| bv_seq := 6; bv_obs := map w_obs_bytes a6; bv_prev := w_b5; bv_next := w_b6 |}.
Example w_votes :
  bvalid nv_h w_check nv_cf w_e2 /\
  o_defs (dec_or_initial nv_cf (bv_prev w_e2)) !! 7 = None /\ o_defs (dec_or_initial nv_cf (bv_next w_e2)) !! 7 = Some nv_def /\
  bvalid nv_h w_check nv_cf w_e6 /\
  o_stage (dec_or_initial nv_cf (bv_prev w_e6)) = Production /\ o_stage (dec_or_initial nv_cf (bv_next w_e6)) = Retired /\
  Forall (bvalid nv_h w_check nv_cf) [w_e5; w_e6] /\ blinked [w_e5; w_e6] /\
  o_va (dec_or_initial nv_cf (bv_next w_e6)) !! 7 = Some (15 * s + 5).
Proof.
  split; [apply bvalidb_ok; vm_compute; reflexivity|].
  split; [vm_compute; reflexivity|]. split; [vm_compute; reflexivity|].
  split; [apply bvalidb_ok; vm_compute; reflexivity|].
  split; [vm_compute; reflexivity|]. split; [vm_compute; reflexivity|].
  split; [repeat (apply Forall_cons; [apply bvalidb_ok; vm_compute; reflexivity|]); apply Forall_nil|].
  split; [unfold blinked; split; [reflexivity|exact I]|].
  vm_compute. reflexivity.
Qed.
