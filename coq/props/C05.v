(* C05 — LLO lifecycle is monotone; retirement freezes state; specimen marking is exact.
   All statements are about ANY previous outcome and ANY observation list (a fortiori any history). *)
From stdpp Require Import gmap.
From DS Require Import Base Decimal StreamValue Aggregators Outcome OutcomeProofs StepTheorems HistoryProofs HistoryLifts NvHistory.
From DS Require BytesHistory.
Open Scope Z_scope.

Theorem C05_initial_stage : forall h cf seq prev aos next,
  seq <= 1 -> outcome_step h cf seq prev aos = Ok next ->
  o_stage next = (if c_has_pred cf then Staging else Production).
Proof. exact initial_stage. Qed.
Print Assumptions C05_initial_stage.

Theorem C05_stage_monotone : forall h cf seq prev aos next,
  1 < seq -> outcome_step h cf seq prev aos = Ok next ->
  (o_stage prev = Staging \/ o_stage prev = Production \/ o_stage prev = Retired) ->
  stage_le (o_stage prev) (o_stage next).
Proof. exact stage_monotone. Qed.
Print Assumptions C05_stage_monotone.

(* once retired: stays retired, same channel set, every existing validity start unchanged
   (trunc_va is the identity for protocol version 1 and idempotent flooring to seconds for version 0) *)
Theorem C05_retired_freezes : forall h cf seq prev aos next,
  1 < seq -> outcome_step h cf seq prev aos = Ok next -> o_stage prev = Retired ->
  o_stage next = Retired /\ o_defs next = o_defs prev /\
  (forall c v, o_va prev !! c = Some v -> o_va next !! c = Some (trunc_va (c_pver cf) v)).
Proof. exact retired_freezes. Qed.
Print Assumptions C05_retired_freezes.

(* over ANY history (linked successful rounds, arbitrary observations in each): stages only move forward, and once
   retired every later round is retired with the same channel set *)
Theorem C05_stage_monotone_history : forall h cf (es : list event) (e0 : event),
  Forall (valid_event h cf) (e0 :: es) -> linked (e0 :: es) -> known_stage (o_stage (ev_prev e0)) ->
  forall e, e ∈ (e0 :: es) -> stage_le (o_stage (ev_prev e0)) (o_stage (ev_next e)) /\ known_stage (o_stage (ev_next e)).
Proof. exact stage_monotone_history. Qed.
Print Assumptions C05_stage_monotone_history.
Theorem C05_retired_forever : forall h cf (es : list event) (e0 : event),
  Forall (valid_event h cf) (e0 :: es) -> linked (e0 :: es) -> o_stage (ev_prev e0) = Retired ->
  forall e, e ∈ (e0 :: es) -> o_stage (ev_next e) = Retired /\ o_defs (ev_next e) = o_defs (ev_prev e0).
Proof. exact retired_forever. Qed.
Print Assumptions C05_retired_forever.

(* the same two laws over histories ON THE WIRE (BytesHistory: byte-level events of Plugin.Outcome linked by their bytes) *)
Theorem C05_stage_monotone_on_the_wire : forall h check cf (bs : list BytesHistory.bevent) (b0 : BytesHistory.bevent),
  BytesHistory.check_typed check -> Forall (BytesHistory.bvalid h check cf) (b0 :: bs) -> BytesHistory.blinked (b0 :: bs) ->
  known_stage (o_stage (BytesHistory.dec_or_initial cf (BytesHistory.bv_prev b0))) ->
  forall b, In b (b0 :: bs) ->
    stage_le (o_stage (BytesHistory.dec_or_initial cf (BytesHistory.bv_prev b0))) (o_stage (BytesHistory.dec_or_initial cf (BytesHistory.bv_next b))) /\
    known_stage (o_stage (BytesHistory.dec_or_initial cf (BytesHistory.bv_next b))).
Proof. exact BytesHistory.stage_monotone_on_the_wire. Qed.
Theorem C05_retired_forever_on_the_wire : forall h check cf (bs : list BytesHistory.bevent) (b0 : BytesHistory.bevent),
  BytesHistory.check_typed check -> Forall (BytesHistory.bvalid h check cf) (b0 :: bs) -> BytesHistory.blinked (b0 :: bs) ->
  o_stage (BytesHistory.dec_or_initial cf (BytesHistory.bv_prev b0)) = Retired ->
  forall b, In b (b0 :: bs) ->
    o_stage (BytesHistory.dec_or_initial cf (BytesHistory.bv_next b)) = Retired /\
    o_defs (BytesHistory.dec_or_initial cf (BytesHistory.bv_next b)) = o_defs (BytesHistory.dec_or_initial cf (BytesHistory.bv_prev b0)).
Proof. exact BytesHistory.retired_forever_on_the_wire. Qed.
Print Assumptions C05_stage_monotone_on_the_wire.
Print Assumptions C05_retired_forever_on_the_wire.

(* every round of a retired instance yields exactly the retirement report carrying its validity starts *)
Theorem C05_retired_reports : forall cf seq o,
  1 < seq -> o_stage o = Retired -> reports_of cf seq o = (Some (o_va o), []).
Proof. exact retired_reports. Qed.
Theorem C05_only_retired_emits_retirement_report : forall cf seq o,
  o_stage o <> Retired -> fst (reports_of cf seq o) = None.
Proof. exact non_retired_no_retirement_report. Qed.

Theorem C05_specimen_iff_not_production : forall cf seq o r,
  r ∈ snd (reports_of cf seq o) -> r_specimen r = negb (bool_decide (o_stage o = Production)).
Proof. exact specimen_iff_not_production. Qed.
Print Assumptions C05_specimen_iff_not_production.

(* non-vacuity: the concrete history of NvHistory goes production -> retired and stays frozen *)
Example C05_nv :
  o_stage p5 = Production /\ o_stage p6 = Retired /\ o_stage p7 = Retired /\ o_defs p7 = o_defs p6 /\
  o_va p7 !! 7 = o_va p6 !! 7 /\ reports_of nv_cf 7 p7 = (Some (o_va p7), []) /\
  o_stage s1 = Staging /\ o_stage s2 = Production /\ length (snd (reports_of nv_cf 5 p5)) = 1%nat.
Proof. vm_compute. repeat split; reflexivity. Qed.
