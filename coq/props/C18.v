(* C18 — timestamped stream aggregates never go back in time and are carried forward. *)
From stdpp Require Import gmap.
From DS Require Import Base Decimal StreamValue Aggregators Outcome OutcomeProofs StepTheorems HistoryProofs HistoryLifts NvHistory.
From DS Require BytesHistory PluginOutcomeBytes.
Open Scope Z_scope.

(* while the (stream, aggregator) pair stays referenced, a timestamped aggregate is kept, replaced by a strictly
   newer one, or (only if the observers' values are no longer timestamped) by a value of another type *)
Theorem C18_tsv_never_goes_back : forall h cf seq prev aos next p t0 i0,
  1 < seq -> outcome_step h cf seq prev aos = Ok next ->
  o_aggs prev !! p = Some (STsv t0 i0) -> p ∈ referenced_pairs (o_defs next) ->
  exists v, o_aggs next !! p = Some v /\
    (v = STsv t0 i0 \/ (exists t1 i1, v = STsv t1 i1 /\ t0 < t1) \/ match v with STsv _ _ => False | _ => True end).
Proof. exact tsv_never_goes_back. Qed.
Print Assumptions C18_tsv_never_goes_back.

(* aggregation impossible this round (e.g. at most f values): carried forward bit for bit *)
Theorem C18_tsv_carried_when_aggregation_fails : forall h cf seq prev aos next sid agg t0 i0 fn e rr obs,
  1 < seq -> outcome_step h cf seq prev aos = Ok next ->
  accept_observations (c_has_pred cf) aos = Ok (rr, obs) ->
  o_aggs prev !! (sid, agg) = Some (STsv t0 i0) -> (sid, agg) ∈ referenced_pairs (o_defs next) ->
  agg_fun agg = Some fn -> fn (stream_obs obs sid) (c_f cf) = Err e ->
  o_aggs next !! (sid, agg) = Some (STsv t0 i0).
Proof. exact tsv_carried_when_aggregation_fails. Qed.
Print Assumptions C18_tsv_carried_when_aggregation_fails.

Theorem C18_unreferenced_dropped : forall h cf seq prev aos next p v,
  1 < seq -> outcome_step h cf seq prev aos = Ok next ->
  o_aggs next !! p = Some v -> p ∈ referenced_pairs (o_defs next).
Proof. exact unreferenced_dropped. Qed.
Print Assumptions C18_unreferenced_dropped.

(* over ANY history: while the pair stays referenced and its aggregate stays timestamped, the observed-at time at the end
   of every later round is at least the one the history started from — whatever is observed in between *)
Theorem C18_observed_at_nondecreasing : forall h cf (es : list event) (e0 : event) p t0,
  Forall (valid_event h cf) (e0 :: es) -> linked (e0 :: es) ->
  tsv_time (ev_prev e0) p = Some t0 ->
  (forall e, e ∈ (e0 :: es) -> p ∈ referenced_pairs (o_defs (ev_next e)) /\ exists t, tsv_time (ev_next e) p = Some t) ->
  forall e t, e ∈ (e0 :: es) -> tsv_time (ev_next e) p = Some t -> t0 <= t.
Proof. exact observed_at_nondecreasing. Qed.
Print Assumptions C18_observed_at_nondecreasing.

(* ... and over histories on the wire *)
Theorem C18_observed_at_nondecreasing_on_the_wire : forall h check cf (bs : list BytesHistory.bevent) (b0 : BytesHistory.bevent) p t0,
  BytesHistory.check_typed check -> Forall (BytesHistory.bvalid h check cf) (b0 :: bs) -> BytesHistory.blinked (b0 :: bs) ->
  tsv_time (BytesHistory.dec_or_initial cf (BytesHistory.bv_prev b0)) p = Some t0 ->
  (forall b, In b (b0 :: bs) -> p ∈ referenced_pairs (o_defs (BytesHistory.dec_or_initial cf (BytesHistory.bv_next b))) /\
                                exists t, tsv_time (BytesHistory.dec_or_initial cf (BytesHistory.bv_next b)) p = Some t) ->
  forall b t, In b (b0 :: bs) -> tsv_time (BytesHistory.dec_or_initial cf (BytesHistory.bv_next b)) p = Some t -> t0 <= t.
Proof. exact BytesHistory.observed_at_nondecreasing_on_the_wire. Qed.
Print Assumptions C18_observed_at_nondecreasing_on_the_wire.

(* non-vacuity: observed-at 11s in round 3, observers report 10s in round 4: the aggregate stays at 11s *)
Example C18_nv :
  o_aggs p3 !! (3, 1) = Some (nv_tsv (11 * s) 100) /\ o_aggs p4 !! (3, 1) = Some (nv_tsv (11 * s) 100) /\
  o_aggs p5 !! (3, 1) = Some (nv_tsv (14 * s) 100).
Proof. vm_compute. repeat split; reflexivity. Qed.

(* the three one-step laws ON THE WIRE (BytesHistory): one successful byte-level call of Plugin.Outcome *)
Theorem C18_tsv_never_goes_back_on_the_wire : forall h check cf (b : BytesHistory.bevent) p t0 i0,
  BytesHistory.check_typed check -> BytesHistory.bvalid h check cf b ->
  o_aggs (BytesHistory.dec_or_initial cf (BytesHistory.bv_prev b)) !! p = Some (STsv t0 i0) ->
  p ∈ referenced_pairs (o_defs (BytesHistory.dec_or_initial cf (BytesHistory.bv_next b))) ->
  exists v, o_aggs (BytesHistory.dec_or_initial cf (BytesHistory.bv_next b)) !! p = Some v /\
    (v = STsv t0 i0 \/ (exists t1 i1, v = STsv t1 i1 /\ t0 < t1) \/ match v with STsv _ _ => False | _ => True end).
Proof. exact BytesHistory.tsv_never_goes_back_on_the_wire. Qed.
Print Assumptions C18_tsv_never_goes_back_on_the_wire.
Theorem C18_tsv_carried_when_aggregation_fails_on_the_wire : forall h check cf (b : BytesHistory.bevent) sid agg t0 i0 fn e rr obs,
  BytesHistory.check_typed check -> BytesHistory.bvalid h check cf b ->
  accept_observations (c_has_pred cf) (map (PluginOutcomeBytes.obs_of_bytes check) (BytesHistory.bv_obs b)) = Ok (rr, obs) ->
  o_aggs (BytesHistory.dec_or_initial cf (BytesHistory.bv_prev b)) !! (sid, agg) = Some (STsv t0 i0) ->
  (sid, agg) ∈ referenced_pairs (o_defs (BytesHistory.dec_or_initial cf (BytesHistory.bv_next b))) ->
  agg_fun agg = Some fn -> fn (stream_obs obs sid) (c_f cf) = Err e ->
  o_aggs (BytesHistory.dec_or_initial cf (BytesHistory.bv_next b)) !! (sid, agg) = Some (STsv t0 i0).
Proof. exact BytesHistory.tsv_carried_when_aggregation_fails_on_the_wire. Qed.
Print Assumptions C18_tsv_carried_when_aggregation_fails_on_the_wire.
Theorem C18_unreferenced_dropped_on_the_wire : forall h check cf (b : BytesHistory.bevent) p v,
  BytesHistory.check_typed check -> BytesHistory.bvalid h check cf b ->
  o_aggs (BytesHistory.dec_or_initial cf (BytesHistory.bv_next b)) !! p = Some v ->
  p ∈ referenced_pairs (o_defs (BytesHistory.dec_or_initial cf (BytesHistory.bv_next b))).
Proof. exact BytesHistory.unreferenced_dropped_on_the_wire. Qed.
Print Assumptions C18_unreferenced_dropped_on_the_wire.
